package core

import (
	"encoding/json"
	"fmt"
	"os"
	"path/filepath"
	"sort"
)

// Exit codes of the dst binary.
const (
	ExitOK        = 0
	ExitViolation = 1
	ExitTrouble   = 2 // build, watchdog, harness trouble: never a VIOLATION
)

// Stats are named counters (fault kinds fired, reach probes, skipped cases...).
type Stats map[string]int64

// Add adds n to counter k.
func (s Stats) Add(k string, n int64) { s[k] += n }

// Inc adds one to counter k.
func (s Stats) Inc(k string) { s[k]++ }

// Violation is one reported counterexample.
type Violation struct {
	Property   string          `json:"property"`
	Clause     string          `json:"clause"`
	Key        string          `json:"key"` // stable identity for the known-findings file
	Detail     string          `json:"detail"`
	Run        int             `json:"run"`
	VerifSeed  uint64          `json:"verif_seed"`
	RunSeed    uint64          `json:"run_seed"`
	Case       json.RawMessage `json:"case"`
	CaseText   string          `json:"case_text"`
	Expected   []string        `json:"expected,omitempty"`
	Observed   []string        `json:"observed,omitempty"`
	OrigSize   int             `json:"orig_size"`
	MinSize    int             `json:"min_size"`
	ShrinkExec int             `json:"shrink_executions"`
	ReplayPath string          `json:"replay_path,omitempty"`
	// Where the run sat in the batch: lets replay re-run the shard's run sequence
	// when a violation depends on package-level state carried from case to case.
	Tier         string `json:"tier,omitempty"`
	Shard        int    `json:"shard"`
	Shards       int    `json:"shards"`
	NeedsHistory bool   `json:"needs_history,omitempty"` // the case alone did not reproduce right after detection
}

// Ctx is the per-process (shard) context. One simulation at a time per process.
type Ctx struct {
	Prop      string
	Tier      string
	Seed      uint64
	Shard     int
	Shards    int
	ReplayDir string
	Scratch   string // per-process scratch directory (sim.Disk lives here); cwd of the process

	Stats         Stats
	Distinct      map[uint64]struct{}
	Evals         int64
	Violations    []*Violation
	ClauseCount   map[string]int64
	Samples       []any
	RunHashes     map[int]uint64 // kept only when KeepRunHashes (determinism self-test)
	HashAll       uint64         // order-independent combination of all per-run event-log hashes
	Runs          int
	KeepRunHashes bool

	run     int
	runSeed uint64
	h       uint64 // running FNV-1a of the current run's event log
	Trace   *os.File
}

// NewCtx makes an empty context.
func NewCtx(prop, tier string, seed uint64) *Ctx {
	return &Ctx{Prop: prop, Tier: tier, Seed: seed, Shards: 1,
		Stats: Stats{}, Distinct: map[uint64]struct{}{}, ClauseCount: map[string]int64{},
		RunHashes: map[int]uint64{}}
}

const fnvOff = 14695981039346656037
const fnvPrime = 1099511628211

// BeginRun resets the event log for run i and returns its PRNG.
func (c *Ctx) BeginRun(i int) *Rng {
	c.run = i
	c.runSeed = RunSeed(c.Seed, c.Prop, i)
	c.h = fnvOff
	c.Runs++
	c.EvU(uint64(i), c.runSeed)
	return NewRng(c.runSeed)
}

// EndRun stores the run's event log hash.
func (c *Ctx) EndRun() {
	c.HashAll ^= SplitMix64(c.h ^ uint64(c.run)*0x9e3779b97f4a7c15)
	if c.KeepRunHashes {
		c.RunHashes[c.run] = c.h
	}
}

// Run returns the current run index.
func (c *Ctx) Run() int { return c.run }

// RunSeed returns the current run seed.
func (c *Ctx) RunSeed() uint64 { return c.runSeed }

// EvS logs a string event. Logging draws nothing from the PRNG and reads no clock.
func (c *Ctx) EvS(s string) {
	h := c.h
	for i := 0; i < len(s); i++ {
		h = (h ^ uint64(s[i])) * fnvPrime
	}
	c.h = (h ^ 0xff) * fnvPrime
	if c.Trace != nil {
		fmt.Fprintf(c.Trace, "run %d: %s\n", c.run, s)
	}
}

// EvB logs a byte-slice event.
func (c *Ctx) EvB(b []byte) {
	h := c.h
	for _, x := range b {
		h = (h ^ uint64(x)) * fnvPrime
	}
	c.h = (h ^ 0xfe) * fnvPrime
	if c.Trace != nil {
		fmt.Fprintf(c.Trace, "run %d: %q\n", c.run, b)
	}
}

// EvU logs integers.
func (c *Ctx) EvU(xs ...uint64) {
	h := c.h
	for _, x := range xs {
		for k := 0; k < 8; k++ {
			h = (h ^ (x & 0xff)) * fnvPrime
			x >>= 8
		}
	}
	c.h = h
	if c.Trace != nil {
		fmt.Fprintf(c.Trace, "run %d: %v\n", c.run, xs)
	}
}

// Eval counts one execution of the system under test.
func (c *Ctx) Eval() { c.Evals++ }

// EvalN counts n executions.
func (c *Ctx) EvalN(n int64) { c.Evals += n }

// DistinctCap bounds the per-shard set of distinct-case hashes (memory); once
// reached, further new cases are not recorded, so the reported number is a
// conservative undercount (flagged in the evidence).
const DistinctCap = 1 << 20

// Seen records a distinct non-trivial case by hash.
func (c *Ctx) Seen(h uint64) {
	if len(c.Distinct) >= DistinctCap {
		if _, ok := c.Distinct[h]; !ok {
			c.Stats["distinct_set_capped_dropped"]++
		}
		return
	}
	c.Distinct[h] = struct{}{}
}

// Sample keeps up to a few sample cases for the evidence file; only the first
// samples of the lowest run indices survive the merge.
func (c *Ctx) Sample(v any) {
	if len(c.Samples) < 4 {
		c.Samples = append(c.Samples, v)
	}
}

// ClauseSeen reports how many violations of the clause were seen so far and counts this one.
func (c *Ctx) ClauseSeen(clause string) int64 {
	n := c.ClauseCount[clause]
	c.ClauseCount[clause] = n + 1
	return n
}

// Report stores a violation and writes its replay file.
func (c *Ctx) Report(v *Violation) {
	v.Property = c.Prop
	v.Run = c.run
	v.VerifSeed = c.Seed
	v.RunSeed = c.runSeed
	v.Tier, v.Shard, v.Shards = c.Tier, c.Shard, c.Shards
	c.EvS("VIOLATION " + v.Clause + " " + v.Key)
	if c.ReplayDir != "" {
		os.MkdirAll(c.ReplayDir, 0o755)
		p := filepath.Join(c.ReplayDir, fmt.Sprintf("%s-%d-%d-%s.json", c.Prop, c.Seed, c.run, sanitize(v.Key)))
		v.ReplayPath = p
		data, _ := json.MarshalIndent(v, "", " ")
		os.WriteFile(p, append(data, '\n'), 0o644)
	}
	c.Violations = append(c.Violations, v)
}

func sanitize(s string) string {
	b := []byte(s)
	for i, x := range b {
		ok := x >= 'a' && x <= 'z' || x >= 'A' && x <= 'Z' || x >= '0' && x <= '9' || x == '.' || x == '-'
		if !ok {
			b[i] = '_'
		}
	}
	return string(b)
}

// ShardResult is what a shard process hands to the parent.
type ShardResult struct {
	Prop        string
	Shard       int
	Runs        int
	Evals       int64
	Stats       Stats
	ClauseCount map[string]int64
	Violations  []*Violation
	Samples     []any
	HashAll     uint64
	DistinctN   int
	WallS       float64
}

// WriteShard writes the shard result (JSON) and the distinct hashes (binary).
func (c *Ctx) WriteShard(path string, wall float64) error {
	r := ShardResult{Prop: c.Prop, Shard: c.Shard, Runs: c.Runs, Evals: c.Evals, Stats: c.Stats,
		ClauseCount: c.ClauseCount, Violations: c.Violations, Samples: c.Samples,
		HashAll: c.HashAll, DistinctN: len(c.Distinct), WallS: wall}
	data, err := json.Marshal(r)
	if err != nil {
		return err
	}
	if err := os.WriteFile(path, data, 0o644); err != nil {
		return err
	}
	hs := make([]uint64, 0, len(c.Distinct))
	for h := range c.Distinct {
		hs = append(hs, h)
	}
	sort.Slice(hs, func(i, j int) bool { return hs[i] < hs[j] })
	buf := make([]byte, 8*len(hs))
	for i, h := range hs {
		for k := 0; k < 8; k++ {
			buf[8*i+k] = byte(h >> (8 * k))
		}
	}
	return os.WriteFile(path+".distinct", buf, 0o644)
}

// ReadDistinct reads a shard's distinct-hash file into the set.
func ReadDistinct(path string, into map[uint64]struct{}) error {
	buf, err := os.ReadFile(path)
	if err != nil {
		return err
	}
	for i := 0; i+8 <= len(buf); i += 8 {
		var h uint64
		for k := 0; k < 8; k++ {
			h |= uint64(buf[i+k]) << (8 * k)
		}
		into[h] = struct{}{}
	}
	return nil
}
