// Package core holds what every property runner shares: the PRNG derivation,
// the per-run event log hash, counters, results, violations and evidence.
package core

import (
	"hash/fnv"
	"math/rand/v2"
)

// SplitMix64 is the usual 64-bit finaliser; used to derive independent seeds.
func SplitMix64(x uint64) uint64 {
	x += 0x9e3779b97f4a7c15
	x = (x ^ (x >> 30)) * 0xbf58476d1ce4e5b9
	x = (x ^ (x >> 27)) * 0x94d049bb133111eb
	return x ^ (x >> 31)
}

// HashString is FNV-1a 64.
func HashString(s string) uint64 {
	h := fnv.New64a()
	h.Write([]byte(s))
	return h.Sum64()
}

// HashBytes is FNV-1a 64.
func HashBytes(b []byte) uint64 {
	h := fnv.New64a()
	h.Write(b)
	return h.Sum64()
}

// RunSeed derives the seed of run i of a property from VERIF_SEED. It depends on
// nothing else (not on the shard layout, not on the tier).
func RunSeed(seed uint64, prop string, i int) uint64 {
	return SplitMix64(SplitMix64(seed^0x5bd1e995) ^ SplitMix64(HashString(prop)) ^ SplitMix64(uint64(i)+0x1234567))
}

// Rng is the only source of choices inside a run.
type Rng struct {
	r *rand.Rand
}

// NewRng returns a PCG generator seeded from s.
func NewRng(s uint64) *Rng {
	return &Rng{rand.New(rand.NewPCG(s, SplitMix64(s^0xabcdef)))}
}

// Intn returns a number in [0,n). n<=0 yields 0.
func (r *Rng) Intn(n int) int {
	if n <= 0 {
		return 0
	}
	return r.r.IntN(n)
}

// Range returns a number in [lo,hi].
func (r *Rng) Range(lo, hi int) int {
	if hi <= lo {
		return lo
	}
	return lo + r.r.IntN(hi-lo+1)
}

// Bool flips a fair coin.
func (r *Rng) Bool() bool { return r.r.IntN(2) == 1 }

// Chance is true with probability p.
func (r *Rng) Chance(p float64) bool { return r.r.Float64() < p }

// Uint64 returns 64 random bits.
func (r *Rng) Uint64() uint64 { return r.r.Uint64() }

// Float64 returns a number in [0,1).
func (r *Rng) Float64() float64 { return r.r.Float64() }

// Perm returns a random permutation of [0,n).
func (r *Rng) Perm(n int) []int { return r.r.Perm(n) }

// Geom returns a geometric-ish positive number with mean about m.
func (r *Rng) Geom(m int) int {
	if m <= 1 {
		return 1
	}
	n := 1
	for n < 64*m && r.r.IntN(m) != 0 {
		n++
	}
	return n
}

// Pick returns one of the strings.
func Pick[T any](r *Rng, xs []T) T {
	return xs[r.Intn(len(xs))]
}

// Bytes returns n bytes drawn from alphabet.
func (r *Rng) Bytes(n int, alphabet string) []byte {
	b := make([]byte, n)
	for i := range b {
		b[i] = alphabet[r.Intn(len(alphabet))]
	}
	return b
}
