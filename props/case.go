// Package props holds the per-property runners: generation of cases from the
// run PRNG, execution of a case (a pure function of the case and the code
// under test), the oracles, and the shrinker.
package props

import (
	"bytes"
	"encoding/json"
	"fmt"

	"verif/core"
	"verif/fmts"
	"verif/sim"
)

// Case is one explicit, PRNG-free description of an execution. Which fields
// are set depends on the clause.
type Case struct {
	Clause   string            `json:"clause"`
	Format   string            `json:"format,omitempty"`
	Iter     string            `json:"iter,omitempty"` // C18: reader | file | preorder | postorder | foreach | canon
	Input    []byte            `json:"input,omitempty"`
	InputQ   string            `json:"input_quoted,omitempty"` // human-readable copy, ignored on replay
	Input2   []byte            `json:"input2,omitempty"`       // C06 crlf clause: the CRLF rendering
	Plan     *sim.Plan         `json:"plan,omitempty"`
	File     *sim.FileCfg      `json:"file,omitempty"`
	Sink     *sim.SinkPlan     `json:"sink,omitempty"`
	Consumer *sim.ConsumerPlan `json:"consumer,omitempty"`
	Rec      *WriteRec         `json:"rec,omitempty"`
	K        int               `json:"k,omitempty"`        // CanonicalSubsequences k
	FDBurst  int               `json:"fd_burst,omitempty"` // C18 File: this many stopped walks in a row under a small descriptor budget
	Stops    []int             `json:"stops,omitempty"`    // C18, long iterations: the stop positions tried (otherwise every position)
	Trie     *TrieCase         `json:"trie,omitempty"`
	Regions  *RegionsCase      `json:"regions,omitempty"`
}

// Clone deep-copies a case.
func (c *Case) Clone() *Case {
	d := *c
	d.Input = append([]byte(nil), c.Input...)
	d.Input2 = append([]byte(nil), c.Input2...)
	d.Stops = append([]int(nil), c.Stops...)
	if c.Plan != nil {
		p := *c.Plan
		p.Chunks = append([]int(nil), c.Plan.Chunks...)
		if c.Plan.Fault != nil {
			f := *c.Plan.Fault
			p.Fault = &f
		}
		d.Plan = &p
	}
	if c.File != nil {
		f := *c.File
		d.File = &f
	}
	if c.Sink != nil {
		x := *c.Sink
		d.Sink = &x
	}
	if c.Consumer != nil {
		x := *c.Consumer
		d.Consumer = &x
	}
	if c.Rec != nil { // small: through JSON
		data, err := json.Marshal(c.Rec)
		if err != nil {
			panic(err)
		}
		d.Rec = &WriteRec{}
		if err := json.Unmarshal(data, d.Rec); err != nil {
			panic(err)
		}
	}
	if c.Trie != nil {
		t := *c.Trie
		t.Alphabet = append([]byte(nil), c.Trie.Alphabet...)
		t.Ops = make([]TrieOp, len(c.Trie.Ops))
		for i, o := range c.Trie.Ops {
			o.Arg = append([]byte(nil), o.Arg...)
			t.Ops[i] = o
		}
		if c.Trie.KeyOrder != nil {
			k := *c.Trie.KeyOrder
			t.KeyOrder = &k
		}
		d.Trie = &t
	}
	if c.Regions != nil {
		r := *c.Regions
		r.Starts = append([]int(nil), c.Regions.Starts...)
		r.Ends = append([]int(nil), c.Regions.Ends...)
		r.Schedule = append([]int(nil), c.Regions.Schedule...)
		r.OtherStarts = append([]int(nil), c.Regions.OtherStarts...)
		r.OtherEnds = append([]int(nil), c.Regions.OtherEnds...)
		r.Tasks = make([][]RegOp, len(c.Regions.Tasks))
		for i, t := range c.Regions.Tasks {
			r.Tasks[i] = append([]RegOp(nil), t...)
		}
		d.Regions = &r
	}
	return &d
}

// Size is the measure the shrinker minimises.
func (c *Case) Size() int {
	n := len(c.Input) + len(c.Input2)
	if c.Plan != nil {
		n += len(c.Plan.Chunks)
	}
	if c.Trie != nil {
		n += c.Trie.size()
	}
	if c.Regions != nil {
		n += c.Regions.size()
	}
	if c.Rec != nil {
		n += c.Rec.size()
	}
	return n
}

// Verdict is the result of executing a case. nil means the property held.
type Verdict struct {
	Clause   string
	Key      string
	Detail   string
	Expected []string
	Observed []string
}

func (v *Verdict) String() string {
	return fmt.Sprintf("%s [%s]: %s", v.Clause, v.Key, v.Detail)
}

// Exec executes a case against the real code. It is a pure function of the
// case and the code (the only state it touches is the scratch directory).
func Exec(c *Case) *Verdict {
	switch {
	case len(c.Clause) >= 3 && c.Clause[:3] == "C07":
		return execC07(c)
	case len(c.Clause) >= 3 && c.Clause[:3] == "C06":
		return execC06(c)
	case len(c.Clause) >= 3 && c.Clause[:3] == "C18":
		return execC18(c)
	case len(c.Clause) >= 3 && c.Clause[:3] == "C15":
		return execC15(c)
	case len(c.Clause) >= 3 && c.Clause[:3] == "C16":
		return execC16(c)
	}
	panic("props.Exec: unknown clause " + c.Clause)
}

// Disk is the process-wide simulated storage.
var Disk sim.Disk

// oneShot decodes input through the format's Reader with the whole input
// available in one Read: the reference environment.
func oneShot(f *fmts.Format, input []byte) sim.Outcome[fmts.Item] {
	return sim.Consume(f.Reader(bytes.NewReader(input)), sim.ConsumerPlan{Style: sim.Direct, StopAt: -1}, 0)
}

func hasErr(items []fmts.Item) bool {
	for _, it := range items {
		if it.Err {
			return true
		}
	}
	return false
}

func sameKeys(a, b []fmts.Item) bool {
	if len(a) != len(b) {
		return false
	}
	for i := range a {
		if a[i].Key() != b[i].Key() {
			return false
		}
	}
	return true
}

// Clip shortens a list of rendered items for display.
func Clip(ss []string, n int) []string { return clip(ss, n) }

func clip(ss []string, n int) []string {
	if len(ss) > n {
		rest := len(ss) - n
		ss = append(append([]string{}, ss[:n]...), fmt.Sprintf("... %d more", rest))
	}
	for i, s := range ss {
		if len(s) > 300 {
			ss[i] = s[:300] + fmt.Sprintf("...(%d bytes)", len(s))
		}
	}
	return ss
}

// report minimises and reports a violating case, once per clause key; later
// violations of the same key are only counted.
func report(ctx *core.Ctx, c *Case, v *Verdict) {
	ctx.Stats.Inc("violations_total")
	if ctx.ClauseSeen(v.Key) > 0 {
		return
	}
	orig := c.Size()
	min, execs := c, 0
	if again := Exec(c); again != nil && again.Key == v.Key {
		min, execs = Shrink(c, v.Key)
	}
	mv := Exec(min)
	needsHistory := false
	if mv == nil || mv.Key != v.Key {
		// The case does not fail when executed again on its own: the code under test
		// carries package-level state from case to case. Report the original case; replay
		// re-runs this shard's run sequence up to this run (deterministic all the same).
		min, mv = c, v
		needsHistory = true
		ctx.Stats.Inc("probe/violation_depends_on_state_carried_across_cases")
	}
	min.InputQ = fmt.Sprintf("%q", min.Input)
	data, _ := json.Marshal(min)
	ctx.Report(&core.Violation{Clause: mv.Clause, Key: mv.Key, Detail: mv.Detail, Case: data,
		CaseText: describe(min), Expected: clip(mv.Expected, 12), Observed: clip(mv.Observed, 12),
		OrigSize: orig, MinSize: min.Size(), ShrinkExec: execs, NeedsHistory: needsHistory})
}

func describe(c *Case) string {
	s := c.Clause
	if c.Format != "" {
		s += " format=" + c.Format
	}
	if c.Iter != "" {
		s += " iter=" + c.Iter
	}
	if c.Input != nil {
		s += fmt.Sprintf(" input=%q", trunc(c.Input, 200))
	}
	if c.Plan != nil {
		p, _ := json.Marshal(c.Plan)
		s += " plan=" + string(p)
	}
	if c.File != nil {
		p, _ := json.Marshal(c.File)
		s += " file=" + string(p)
	}
	if c.Sink != nil {
		p, _ := json.Marshal(c.Sink)
		s += " sink=" + string(p)
	}
	if c.Consumer != nil {
		p, _ := json.Marshal(c.Consumer)
		s += " consumer=" + string(p)
	}
	if c.Rec != nil {
		s += " rec=" + c.Rec.String()
	}
	if c.Trie != nil {
		s += " trie=" + c.Trie.String()
	}
	if c.Regions != nil {
		s += " regions=" + c.Regions.String()
	}
	return s
}

func trunc(b []byte, n int) []byte {
	if len(b) > n {
		return b[:n]
	}
	return b
}
