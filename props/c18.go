package props

import (
	"fmt"
	"iter"

	"verif/core"
	"verif/fmts"
	"verif/sim"

	"github.com/fluhus/biostuff/formats/newick"
	"github.com/fluhus/biostuff/sequtil"
	"github.com/fluhus/biostuff/trie"
)

// C18 — every iterator can be stopped early, cleanly, at any point.
//
// Clauses:
//   C18.callback-after-stop   the iterator called back after the consumer declined
//   C18.panic                 stopping made the iterator (or the runtime's range check) panic
//   C18.prefix                the items seen are not the leading items of the uninterrupted run
//                             (ForEach: not distinct members of the full result)
//   C18.error-not-last        FASTA/FASTQ/BED/Newick: something follows an error item
// Keys carry the iterator: e.g. C18.panic/fasta.File.

// c18Seq builds a fresh iterator plus environment for the case. Items are
// rendered as strings; unordered says that only set membership is promised.
func c18Seq(c *Case) (mk func() iter.Seq[string], name string, unordered bool, errLast bool, reusable bool, cleanup func()) {
	cleanup = func() {}
	switch c.Iter {
	case "reader":
		f := fmts.ByName(c.Format)
		plan := sim.Plan{}
		if c.Plan != nil {
			plan = *c.Plan
		}
		return func() iter.Seq[string] {
			st := sim.NewStream(c.Input, plan)
			seq := f.Reader(st)
			return func(yield func(string) bool) { seq(func(it fmts.Item) bool { return yield(it.Key()) }) }
		}, f.Name + ".Reader", false, f.ErrLast, false, cleanup
	case "file":
		f := fmts.ByName(c.Format)
		cfg := *c.File
		cfg.Ext = f.Ext
		path, cl := Disk.Materialise(&cfg, c.Input)
		return func() iter.Seq[string] {
			seq := f.File(path)
			return func(yield func(string) bool) { seq(func(it fmts.Item) bool { return yield(it.Key()) }) }
		}, f.Name + ".File", false, f.ErrLast, true, cl
	case "preorder", "postorder":
		root := c.Rec.Newick.node()
		ids := map[*newick.Node]string{}
		var number func(n *newick.Node, path string)
		number = func(n *newick.Node, path string) {
			ids[n] = path
			for i, ch := range n.Children {
				number(ch, fmt.Sprintf("%s.%d", path, i))
			}
		}
		number(root, "r")
		return func() iter.Seq[string] {
			seq := root.PreOrder()
			if c.Iter == "postorder" {
				seq = root.PostOrder()
			}
			return func(yield func(string) bool) {
				seq(func(n *newick.Node) bool {
					id, ok := ids[n]
					if !ok {
						id = "<foreign node>"
					}
					return yield(id)
				})
			}
		}, "newick." + c.Iter, false, false, true, cleanup
	case "foreach":
		t := trie.New()
		for _, op := range c.Trie.Ops {
			switch op.Op {
			case "add":
				t.Add(append([]byte{}, op.Arg...))
			case "del":
				if len(op.Arg) > 0 {
					t.Delete(append([]byte{}, op.Arg...))
				}
			}
		}
		return func() iter.Seq[string] {
			setKeyOrder(c.Trie.KeyOrder)
			return func(yield func(string) bool) {
				t.ForEach(func(b []byte) bool { return yield(string(b)) })
			}
		}, "trie.ForEach", true, false, true, func() { setKeyOrder(nil) }
	case "canon":
		seq := append([]byte{}, c.Input...)
		return func() iter.Seq[string] {
			s := sequtil.CanonicalSubsequences(seq, c.K)
			return func(yield func(string) bool) { s(func(b []byte) bool { return yield(string(b)) }) }
		}, "sequtil.CanonicalSubsequences", false, false, true, cleanup
	}
	panic("c18Seq: " + c.Iter)
}

type c18Info struct {
	n        int
	skipped  string
	errItems int
	name     string
	reusable bool
}

func execC18(c *Case) *Verdict {
	v, _ := execC18Info(c)
	return v
}

// execC18Info: Consumer nil means "every stop position x every style";
// otherwise exactly the given one (replay / shrinking).
func execC18Info(c *Case) (*Verdict, c18Info) {
	mk, name, unordered, errLast, reusable, cleanup := c18Seq(c)
	defer cleanup()
	info := c18Info{name: name, reusable: reusable}
	if reusable {
		// One iterator VALUE serves every run of the case (a File iterator reopens the
		// file, a traversal restarts at the root): stopping it must leave nothing behind.
		shared := mk()
		mk = func() iter.Seq[string] { return shared }
	}
	full := sim.Consume(mk(), sim.ConsumerPlan{Style: sim.Direct, StopAt: -1}, 100000)
	if full.Capped != "" {
		info.skipped = "full_run_capped" // non-termination is C07's clause, not C18's
		return nil, info
	}
	if full.Panic != "" {
		info.skipped = "full_run_panics" // totality of the uninterrupted run is not C18's claim
		return nil, info
	}
	info.n = len(full.Items)
	for i, it := range full.Items {
		if it == "E" {
			info.errItems++
			if errLast && i != len(full.Items)-1 {
				return &Verdict{Clause: "C18.error-not-last", Key: "C18.error-not-last/" + name,
					Detail: fmt.Sprintf("item %d of %d is an error but is not the last item", i, len(full.Items)), Observed: full.Items}, info
			}
		}
	}
	fullSet := map[string]int{}
	for _, it := range full.Items {
		fullSet[it]++
	}
	check := func(plan sim.ConsumerPlan) *Verdict {
		out := sim.Consume(mk(), plan, 100000)
		key := "/" + name
		where := fmt.Sprintf("stop on item %d of %d, style %s", plan.StopAt, len(full.Items), plan.Style)
		if out.Panic != "" {
			return &Verdict{Clause: "C18.panic", Key: "C18.panic" + key, Detail: where + ": panic: " + out.Panic, Expected: full.Items, Observed: out.Items}
		}
		if out.After > 0 || out.Capped == "callbacks-after-stop" {
			return &Verdict{Clause: "C18.callback-after-stop", Key: "C18.callback-after-stop" + key,
				Detail: fmt.Sprintf("%s: %d further callback(s) after the consumer returned false", where, out.After), Expected: full.Items, Observed: out.Items}
		}
		if out.Capped != "" {
			return nil // kept reading without calling back: not stated by C18
		}
		want := plan.StopAt + 1
		if want > len(full.Items) {
			want = len(full.Items)
		}
		bad := len(out.Items) != want
		if !bad && !unordered {
			for i := range out.Items {
				if out.Items[i] != full.Items[i] {
					bad = true
				}
			}
		}
		if !bad && unordered {
			seen := map[string]int{}
			for _, it := range out.Items {
				seen[it]++
				if seen[it] > fullSet[it] {
					bad = true
				}
			}
		}
		if bad {
			return &Verdict{Clause: "C18.prefix", Key: "C18.prefix" + key, Detail: where + ": items seen are not the leading items of the uninterrupted run",
				Expected: full.Items, Observed: out.Items}
		}
		if reusable {
			// the same iterator value, run again without stopping, must behave as before the stop
			again := sim.Consume(mk(), sim.ConsumerPlan{Style: sim.Direct, StopAt: -1}, 100000)
			same := again.Panic == "" && again.Capped == "" && len(again.Items) == len(full.Items)
			if same && !unordered {
				for i := range again.Items {
					if again.Items[i] != full.Items[i] {
						same = false
					}
				}
			}
			if same && unordered {
				seen := map[string]int{}
				for _, it := range again.Items {
					seen[it]++
					if seen[it] > fullSet[it] {
						same = false
					}
				}
			}
			if !same {
				d := where + ": the same iterator, run again to the end after that stop, no longer yields what it yielded before"
				if again.Panic != "" {
					d += " (panic: " + again.Panic + ")"
				}
				return &Verdict{Clause: "C18.rerun-after-stop", Key: "C18.rerun-after-stop" + key, Detail: d, Expected: full.Items, Observed: again.Items}
			}
		}
		return nil
	}
	if c.Consumer != nil {
		return check(*c.Consumer), info
	}
	for j := 0; j < len(full.Items); j++ {
		for _, style := range sim.Styles {
			if v := check(sim.ConsumerPlan{Style: style, StopAt: j}); v != nil {
				c.Consumer = &sim.ConsumerPlan{Style: style, StopAt: j} // pin the failing point for shrinking and replay
				return v, info
			}
		}
	}
	return nil, info
}

func genTreeSpec(r *core.Rng, depth int, budget *int) *NodeSpec {
	n := &NodeSpec{}
	*budget--
	if depth > 0 {
		for k := r.Intn(4); k > 0 && *budget > 0; k-- {
			n.Children = append(n.Children, genTreeSpec(r, depth-1, budget))
		}
	}
	return n
}

// RunC18 is one simulated run: one case, every stop position, three styles.
func RunC18(ctx *core.Ctx, r *core.Rng) {
	c := &Case{Clause: "C18"}
	x := r.Intn(100)
	switch {
	case x < 45: // Reader of a format under a delivery plan, often with a fault so that an error item exists
		f := core.Pick(r, fmts.All)
		c.Iter, c.Format = "reader", f.Name
		sz := fmts.Small
		switch y := r.Intn(100); {
		case y < 12:
			sz = fmts.Tiny
		case y < 60:
			sz = fmts.Multi
		}
		doc := f.Gen(r, sz)
		c.Input = doc.Render(core.Pick(r, []string{"\n", "\n", "\r\n"}))
		if r.Chance(0.35) {
			c.Input = fmts.Mutate(r, f, c.Input)
		}
		if len(c.Input) > 700 {
			c.Input = c.Input[:700]
		}
		plan := genPlan(r, core.Pick(r, planStyles), c.Input, f.Special)
		if r.Chance(0.6) {
			plan.Fault = &sim.Fault{Offset: r.Range(0, len(c.Input)), Forever: r.Bool(), WithData: r.Bool(), Kind: sim.FaultKinds[r.Intn(len(sim.FaultKinds))]}
			if r.Chance(0.35) { // transient: one error, then the rest of the data arrives
				plan.Fault.Forever, plan.Fault.Resume = false, true
			} else {
				plan.EOFWithData = false
			}
		}
		c.Plan = &plan
	case x < 70: // File, plain / .gz / torn .gz / directory / missing
		f := core.Pick(r, fmts.All)
		c.Iter, c.Format = "file", f.Name
		doc := f.Gen(r, core.Pick(r, []fmts.Size{fmts.Small, fmts.Multi}))
		c.Input = doc.Render("\n")
		if r.Chance(0.35) {
			c.Input = fmts.Mutate(r, f, c.Input)
		}
		if len(c.Input) > 700 {
			c.Input = c.Input[:700]
		}
		kind := core.Pick(r, []string{"plain", "plain", "gz", "gz", "gztrunc", "gztrunc", "dir", "missing"})
		cfg := &sim.FileCfg{Kind: kind, Level: core.Pick(r, []int{0, 1, 6, 9})}
		if kind == "gztrunc" {
			z := sim.Gzip(c.Input, cfg.Level)
			cfg.Cut = r.Range(0, len(z)-9)
		}
		c.File = cfg
	case x < 82:
		c.Iter = core.Pick(r, []string{"preorder", "postorder"})
		budget := r.Range(1, 40)
		c.Rec = &WriteRec{Newick: genTreeSpec(r, r.Range(0, 5), &budget)}
		if n := c.Rec.Newick; len(n.Children) > 0 {
			for _, ch := range n.Children {
				if len(ch.Children) > 0 {
					ctx.Stats.Inc("probe/traversal_stopped_at_root_internal_and_leaf")
					break
				}
			}
		}
	case x < 92:
		c.Iter = "foreach"
		tc := genTrieCase(r, 14)
		var ops []TrieOp
		for _, op := range tc.Ops {
			if op.Op == "add" || op.Op == "del" {
				op.Scribble = false
				ops = append(ops, op)
			}
		}
		tc.Ops = ops
		c.Trie = tc
	default:
		c.Iter = "canon"
		c.Input = r.Bytes(r.Range(0, 40), "ACGTN")
		c.K = r.Range(0, len(c.Input)+2)
	}
	ctx.EvS(describe(c))
	v, info := execC18Info(c)
	ctx.Stats.Inc("cases/" + info.name)
	ctx.EvalN(int64(1 + 3*info.n))
	if info.reusable {
		ctx.EvalN(int64(3 * info.n))
		ctx.Stats.Add("fault_fired/rerun_same_iterator_after_stop", int64(3*info.n))
	}
	if info.skipped != "" {
		ctx.Stats.Inc("skipped_" + info.skipped + "/" + info.name)
	} else {
		ctx.Stats.Add("fault_fired/consumer_stop", int64(3*info.n))
		ctx.Stats.Add("stop_positions_enumerated/"+info.name, int64(info.n))
		if info.n > 0 {
			ctx.Stats.Inc("probe/stop_on_first_and_last_item/" + info.name)
			ctx.Seen(core.HashString(describe(c)))
		} else {
			ctx.Stats.Inc("cases_with_no_items/" + info.name)
		}
		if info.errItems > 0 {
			ctx.Stats.Add("probe/stop_on_error_item/"+info.name, int64(info.errItems))
			if info.errItems > 1 || (c.Format == "sam" || c.Format == "samh") && info.n > info.errItems {
				ctx.Stats.Inc("probe/error_item_mid_stream/" + info.name)
			}
		}
		if c.Plan != nil && c.Plan.Fault != nil {
			ctx.Stats.Inc("fault_fired/read_fault_environment")
			if c.Plan.Fault.Resume {
				ctx.Stats.Inc("fault_fired/read_fault_transient_data_resumes")
			}
		}
		if c.File != nil {
			ctx.Stats.Inc("fault_fired/file_" + c.File.Kind)
		}
		if c.Iter == "canon" && c.K > len(c.Input) {
			ctx.Stats.Inc("probe/canon_k_greater_than_len")
		}
	}
	ctx.EvU(uint64(info.n), uint64(info.errItems))
	if v != nil {
		ctx.EvS(v.Key)
		report(ctx, c, v)
	}
	if ctx.Run() < 64 {
		d := describe(c)
		if len(d) > 400 {
			d = d[:400]
		}
		ctx.Sample(map[string]any{"case": d, "items_in_full_run": info.n, "stop_positions_x_styles": 3 * info.n})
	}
}
