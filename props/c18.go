package props

import (
	"bytes"
	"fmt"
	"iter"
	"runtime"
	"runtime/debug"
	"sort"
	"syscall"

	"verif/core"
	"verif/fmts"
	"verif/sim"

	"github.com/fluhus/biostuff/formats/newick"
	"github.com/fluhus/biostuff/sequtil"
	"github.com/fluhus/biostuff/trie"
)

// C18 — every iterator can be stopped early, cleanly, at any point.
//
// Clauses:
//   C18.callback-after-stop   the iterator called back after the consumer declined
//   C18.panic                 stopping made the iterator (or the runtime's range check) panic
//   C18.prefix                the items seen are not the leading items of the uninterrupted run
//                             (ForEach: not distinct members of the full result)
//   C18.error-not-last        FASTA/FASTQ/BED/Newick: something follows an error item
// Keys carry the iterator: e.g. C18.panic/fasta.File.

// c18Seq builds a fresh iterator plus environment for the case. Items are
// rendered as strings; unordered says that only set membership is promised.
func c18Seq(c *Case) (mk func() iter.Seq[string], name string, unordered bool, errLast bool, reusable bool, cleanup func()) {
	cleanup = func() {}
	switch c.Iter {
	case "reader":
		f := fmts.ByName(c.Format)
		plan := sim.Plan{}
		if c.Plan != nil {
			plan = *c.Plan
		}
		return func() iter.Seq[string] {
			st := sim.NewStream(c.Input, plan)
			seq := f.Reader(st)
			return func(yield func(string) bool) { seq(func(it fmts.Item) bool { return yield(it.Key()) }) }
		}, f.Name + ".Reader", false, f.ErrLast, false, cleanup
	case "file":
		f := fmts.ByName(c.Format)
		cfg := *c.File
		cfg.Ext = f.Ext
		path, cl := Disk.Materialise(&cfg, c.Input)
		return func() iter.Seq[string] {
			seq := f.File(path)
			return func(yield func(string) bool) { seq(func(it fmts.Item) bool { return yield(it.Key()) }) }
		}, f.Name + ".File", false, f.ErrLast, true, cl
	case "preorder", "postorder":
		root := c.Rec.Newick.node()
		ids := map[*newick.Node]string{}
		var number func(n *newick.Node, path string)
		number = func(n *newick.Node, path string) {
			ids[n] = path
			for i, ch := range n.Children {
				number(ch, fmt.Sprintf("%s.%d", path, i))
			}
		}
		number(root, "r")
		return func() iter.Seq[string] {
			seq := root.PreOrder()
			if c.Iter == "postorder" {
				seq = root.PostOrder()
			}
			return func(yield func(string) bool) {
				seq(func(n *newick.Node) bool {
					id, ok := ids[n]
					if !ok {
						id = "<foreign node>"
					}
					return yield(id)
				})
			}
		}, "newick." + c.Iter, false, false, true, cleanup
	case "foreach":
		t := trie.New()
		for _, op := range c.Trie.Ops {
			switch op.Op {
			case "add":
				t.Add(append([]byte{}, op.Arg...))
			case "del":
				if len(op.Arg) > 0 {
					t.Delete(append([]byte{}, op.Arg...))
				}
			case "fanout":
				for b := 0; b < 256; b++ {
					t.Add(append(append([]byte{}, op.Arg...), byte(b)))
				}
			}
		}
		return func() iter.Seq[string] {
			setKeyOrder(c.Trie.KeyOrder)
			return func(yield func(string) bool) {
				t.ForEach(func(b []byte) bool { return yield(string(b)) })
			}
		}, "trie.ForEach", true, false, true, func() { setKeyOrder(nil) }
	case "canon":
		seq := append([]byte{}, c.Input...)
		// a second, different sequence of the same length for the overlapped walk: internal
		// scratch state shared between two live iterations shows only if their data differ
		other := make([]byte, len(seq))
		for i := range seq {
			other[i] = "TGCAN"[(int(seq[len(seq)-1-i])+i)%5]
		}
		c18Other = func() iter.Seq[string] {
			s := sequtil.CanonicalSubsequences(other, c.K)
			return func(yield func(string) bool) { s(func(b []byte) bool { return yield(string(b)) }) }
		}
		return func() iter.Seq[string] {
			s := sequtil.CanonicalSubsequences(seq, c.K)
			return func(yield func(string) bool) { s(func(b []byte) bool { return yield(string(b)) }) }
		}, "sequtil.CanonicalSubsequences", false, false, true, cleanup
	}
	panic("c18Seq: " + c.Iter)
}

// FDLimit is the soft RLIMIT_NOFILE of a C18 process (set by SetupC18): the
// simulated descriptor budget.
const FDLimit = 200

// SetupC18 lowers the descriptor limit of the process.
func SetupC18(ctx *core.Ctx) error {
	var lim syscall.Rlimit
	if err := syscall.Getrlimit(syscall.RLIMIT_NOFILE, &lim); err != nil {
		return err
	}
	if lim.Cur > FDLimit {
		lim.Cur = FDLimit
		return syscall.Setrlimit(syscall.RLIMIT_NOFILE, &lim)
	}
	return nil
}

// c18Other, when set by c18Seq, makes an iterator of the same kind over different
// data; the overlapped walk pairs it with the case's own iterator.
var c18Other func() iter.Seq[string]

type c18Info struct {
	n        int
	skipped  string
	errItems int
	name     string
	reusable bool
	stops    int
}

func execC18(c *Case) *Verdict {
	v, _ := execC18Info(c)
	return v
}

// execC18Info: Consumer nil means "every stop position x every style";
// otherwise exactly the given one (replay / shrinking).
func execC18Info(c *Case) (*Verdict, c18Info) {
	c18Other = nil
	mk, name, unordered, errLast, reusable, cleanup := c18Seq(c)
	defer cleanup()
	mkOther := c18Other
	var fullOther []string
	if mkOther != nil { // its reference walk, before anything was stopped
		fullOther = sim.Consume(mkOther(), sim.ConsumerPlan{Style: sim.Direct, StopAt: -1}, 100000).Items
	}
	info := c18Info{name: name, reusable: reusable}
	if reusable {
		// One iterator VALUE serves every run of the case (a File iterator reopens the
		// file, a traversal restarts at the root): stopping it must leave nothing behind.
		shared := mk()
		mk = func() iter.Seq[string] { return shared }
	}
	full := sim.Consume(mk(), sim.ConsumerPlan{Style: sim.Direct, StopAt: -1}, 100000)
	if full.Capped != "" {
		if unordered {
			// no full result exists, but the items delivered so far must still be distinct members
			seen := map[string]bool{}
			for i, it := range full.Items {
				if seen[it] {
					return &Verdict{Clause: "C18.prefix", Key: "C18.prefix/" + name,
						Detail: fmt.Sprintf("the walk does not end and item %d (%q) was already delivered: not distinct members", i, it), Observed: clip(full.Items, 12)}, info
				}
				seen[it] = true
			}
		}
		info.skipped = "full_run_capped" // non-termination of a stream iterator is C07's clause, not C18's
		return nil, info
	}
	if full.Panic != "" {
		info.skipped = "full_run_panics" // totality of the uninterrupted run is not C18's claim
		return nil, info
	}
	info.n = len(full.Items)
	for i, it := range full.Items {
		if it == "E" {
			info.errItems++
			if errLast && i != len(full.Items)-1 {
				return &Verdict{Clause: "C18.error-not-last", Key: "C18.error-not-last/" + name,
					Detail: fmt.Sprintf("item %d of %d is an error but is not the last item", i, len(full.Items)), Observed: full.Items}, info
			}
		}
	}
	fullSet := map[string]int{}
	for _, it := range full.Items {
		fullSet[it]++
	}
	check := func(plan sim.ConsumerPlan) *Verdict {
		out := sim.Consume(mk(), plan, 100000)
		key := "/" + name
		where := fmt.Sprintf("stop on item %d of %d, style %s", plan.StopAt, len(full.Items), plan.Style)
		if out.Panic != "" {
			return &Verdict{Clause: "C18.panic", Key: "C18.panic" + key, Detail: where + ": panic: " + out.Panic, Expected: full.Items, Observed: out.Items}
		}
		if out.After > 0 || out.Capped == "callbacks-after-stop" {
			return &Verdict{Clause: "C18.callback-after-stop", Key: "C18.callback-after-stop" + key,
				Detail: fmt.Sprintf("%s: %d further callback(s) after the consumer returned false", where, out.After), Expected: full.Items, Observed: out.Items}
		}
		if out.Capped != "" {
			return nil // kept reading without calling back: not stated by C18
		}
		want := plan.StopAt + 1
		if want > len(full.Items) {
			want = len(full.Items)
		}
		bad := len(out.Items) != want
		if !bad && !unordered {
			for i := range out.Items {
				if out.Items[i] != full.Items[i] {
					bad = true
				}
			}
		}
		if !bad && unordered {
			seen := map[string]int{}
			for _, it := range out.Items {
				seen[it]++
				if seen[it] > fullSet[it] {
					bad = true
				}
			}
		}
		if bad {
			return &Verdict{Clause: "C18.prefix", Key: "C18.prefix" + key, Detail: where + ": items seen are not the leading items of the uninterrupted run",
				Expected: full.Items, Observed: out.Items}
		}
		if reusable && (c.Stops == nil || plan.StopAt%7 == 0 || plan.StopAt == len(full.Items)-1) {
			// the same iterator value, run again without stopping, must behave as before the stop
			// (in long iterations only after some of the stops: each re-walk costs a full pass)
			again := sim.Consume(mk(), sim.ConsumerPlan{Style: sim.Direct, StopAt: -1}, 100000)
			same := again.Panic == "" && again.Capped == "" && len(again.Items) == len(full.Items)
			if same && !unordered {
				for i := range again.Items {
					if again.Items[i] != full.Items[i] {
						same = false
					}
				}
			}
			if same && unordered {
				seen := map[string]int{}
				for _, it := range again.Items {
					seen[it]++
					if seen[it] > fullSet[it] {
						same = false
					}
				}
			}
			if !same {
				d := where + ": the same iterator, run again to the end after that stop, no longer yields what it yielded before"
				if again.Panic != "" {
					d += " (panic: " + again.Panic + ")"
				}
				return &Verdict{Clause: "C18.rerun-after-stop", Key: "C18.rerun-after-stop" + key, Detail: d, Expected: full.Items, Observed: again.Items}
			}
		}
		return nil
	}
	// After the stops: two walks of the same iterator value alive at the same time
	// (as in a nested loop) must each still deliver the full sequence.
	overlapped := func() *Verdict {
		if !reusable || len(full.Items) == 0 {
			return nil
		}
		var a, b []string
		var pan any
		func() {
			defer func() { pan = recover() }()
			next1, stop1 := iter.Pull(mk())
			defer stop1()
			second := mk
			if mkOther != nil {
				second = mkOther
			}
			next2, stop2 := iter.Pull(second())
			defer stop2()
			for live1, live2 := true, true; live1 || live2; {
				if live1 {
					if it, ok := next1(); ok {
						a = append(a, it)
					} else {
						live1 = false
					}
				}
				if live2 {
					if it, ok := next2(); ok {
						b = append(b, it)
					} else {
						live2 = false
					}
				}
				if len(a) > 100000 || len(b) > 100000 {
					break
				}
			}
		}()
		same := func(x []string) bool {
			if len(x) != len(full.Items) {
				return false
			}
			if unordered {
				seen := map[string]int{}
				for _, it := range x {
					seen[it]++
					if seen[it] > fullSet[it] {
						return false
					}
				}
				return true
			}
			for i := range x {
				if x[i] != full.Items[i] {
					return false
				}
			}
			return true
		}
		okB := same(b)
		if mkOther != nil {
			okB = len(b) == len(fullOther)
			for i := 0; okB && i < len(b); i++ {
				okB = b[i] == fullOther[i]
			}
		}
		if pan != nil || !same(a) || !okB {
			d := "after the stops, two interleaved walks of the same iterator no longer both yield what a walk yielded before"
			if pan != nil {
				d += fmt.Sprint(" (panic: ", pan, ")")
			}
			obs := a
			if same(a) {
				obs = b
			}
			return &Verdict{Clause: "C18.rerun-after-stop", Key: "C18.rerun-after-stop/" + name, Detail: d, Expected: full.Items, Observed: obs}
		}
		return nil
	}
	// Resource budget: many stopped walks in a row while the process may hold only
	// FDLimit descriptors and no garbage collection (hence no finalizer) helps out.
	burst := func() *Verdict {
		if c.FDBurst <= 0 || c.Iter != "file" || len(full.Items) == 0 {
			return nil
		}
		old := debug.SetGCPercent(-1)
		for i := 0; i < c.FDBurst; i++ {
			sim.Consume(mk(), sim.ConsumerPlan{Style: sim.Styles[i%3], StopAt: 0}, 0)
		}
		again := sim.Consume(mk(), sim.ConsumerPlan{Style: sim.Direct, StopAt: -1}, 100000)
		debug.SetGCPercent(old)
		runtime.GC()
		runtime.GC()
		same := again.Panic == "" && len(again.Items) == len(full.Items)
		for i := 0; same && i < len(again.Items); i++ {
			same = again.Items[i] == full.Items[i]
		}
		if !same {
			return &Verdict{Clause: "C18.rerun-after-stop", Key: "C18.rerun-after-stop/" + name,
				Detail:   fmt.Sprintf("after %d stopped walks in a row (descriptor budget %d, no GC in between) a full walk no longer yields what it yielded before", c.FDBurst, FDLimit),
				Expected: full.Items, Observed: again.Items}
		}
		return nil
	}
	if c.Consumer != nil {
		if v := check(*c.Consumer); v != nil {
			return v, info
		}
		if v := overlapped(); v != nil {
			return v, info
		}
		return burst(), info
	}
	positions := c.Stops
	if positions == nil {
		for j := 0; j < len(full.Items); j++ {
			positions = append(positions, j)
		}
	}
	info.stops = 0
	for _, j := range positions {
		if j < 0 || j >= len(full.Items) {
			continue
		}
		info.stops++
		for _, style := range sim.Styles {
			if v := check(sim.ConsumerPlan{Style: style, StopAt: j}); v != nil {
				c.Consumer = &sim.ConsumerPlan{Style: style, StopAt: j} // pin the failing point for shrinking and replay
				return v, info
			}
		}
	}
	if v := overlapped(); v != nil {
		c.Consumer = &sim.ConsumerPlan{Style: sim.Direct, StopAt: 0}
		return v, info
	}
	if v := burst(); v != nil {
		c.Consumer = &sim.ConsumerPlan{Style: sim.Direct, StopAt: 0}
		return v, info
	}
	return nil, info
}

func genTreeSpec(r *core.Rng, depth int, budget *int) *NodeSpec {
	n := &NodeSpec{}
	*budget--
	if depth > 0 {
		for k := r.Intn(4 + *budget/60); k > 0 && *budget > 0; k-- {
			n.Children = append(n.Children, genTreeSpec(r, depth-1, budget))
		}
	}
	return n
}

// RunC18 is one simulated run: one case, every stop position, three styles.
func RunC18(ctx *core.Ctx, r *core.Rng) {
	Noise(ctx, r)
	c := &Case{Clause: "C18"}
	x := r.Intn(100)
	long := r.Chance(0.0004)
	if long {
		// a long iteration (tens of thousands of items): stop positions are sampled, with
		// the neighbours of every power of two among them (block sizes, counters, growth steps)
		x = core.Pick(r, []int{95, 75, 75, 10})
	}
	defer func() {
		if long && c.Stops == nil {
			c.Stops = []int{}
		}
	}()
	stopsFor := func(n int) []int {
		set := map[int]bool{0: true, n - 1: true}
		for p := 1024; p < n+2; p *= 2 {
			set[p-1], set[p], set[p-2] = true, true, true
		}
		for p := 100; p < n+2; p *= 10 { // round decimal limits too
			set[p-1], set[p], set[p-2] = true, true, true
		}
		for i := 0; i < 4; i++ {
			set[r.Intn(n+1)] = true
		}
		var out []int
		for j := range set {
			if j >= 0 && j < n {
				out = append(out, j)
			}
		}
		sort.Ints(out)
		return out
	}
	switch {
	case x < 45: // Reader of a format under a delivery plan, often with a fault so that an error item exists
		f := core.Pick(r, fmts.All)
		c.Iter, c.Format = "reader", f.Name
		sz := fmts.Small
		switch y := r.Intn(100); {
		case y < 12:
			sz = fmts.Tiny
		case y < 60:
			sz = fmts.Multi
		case y < 62:
			sz = fmts.Medium // long iterations: hundreds of stop positions
		}
		doc := f.Gen(r, sz)
		c.Input = doc.Render(core.Pick(r, []string{"\n", "\n", "\r\n"}))
		if r.Chance(0.35) {
			c.Input = fmts.Mutate(r, f, c.Input)
		}
		if len(c.Input) > 700 && sz != fmts.Medium {
			c.Input = c.Input[:700]
		}
		if r.Chance(0.03) { // starts like a gzip stream / carries a byte order mark
			c.Input = append(append([]byte(core.Pick(r, []string{"\x1f\x8b\x08", "\x1f\x8b\x08", "\x1f\x8b", "\xef\xbb\xbf"})), r.Bytes(r.Range(0, 12), "\x00\x02\x08\xff\x1fAa\n")...), c.Input...)
		}
		if long { // tens of thousands of tiny records
			f = core.Pick(r, []*fmts.Format{fmts.Fasta, fmts.Bed, fmts.Fastq, fmts.Sam, fmts.SamH})
			c.Format = f.Name
			n := r.Range(66000, 90000)
			if f.Name == "sam" || f.Name == "samh" {
				n = r.Range(10500, 20000) // a long run of malformed lines: an error item each, the iteration carries on
			}
			var b bytes.Buffer
			for i := 0; i < n; i++ {
				switch f.Name {
				case "sam", "samh":
					fmt.Fprintf(&b, "bad%d\t1\n", i)
				case "fasta":
					fmt.Fprintf(&b, ">%d\nAC\n", i)
				case "bed":
					fmt.Fprintf(&b, "c\t%d\t%d\n", i, i+1)
				default:
					fmt.Fprintf(&b, "@%d\nA\n+\nI\n", i)
				}
			}
			c.Input = b.Bytes()
			c.Stops = stopsFor(n)
		}
		plan := genPlan(r, core.Pick(r, planStyles), c.Input, f.Special)
		if long {
			plan = sim.Plan{Tail: core.Pick(r, []int{0, 4096, 1000})}
		}
		if r.Chance(0.6) && !long {
			plan.Fault = &sim.Fault{Offset: r.Range(0, len(c.Input)), Forever: r.Bool(), WithData: r.Bool(), Kind: sim.FaultKinds[r.Intn(len(sim.FaultKinds))]}
			if r.Chance(0.35) { // transient: one error, then the rest of the data arrives
				plan.Fault.Forever, plan.Fault.Resume = false, true
			} else {
				plan.EOFWithData = false
			}
		}
		c.Plan = &plan
	case x < 70: // File, plain / .gz / torn .gz / directory / missing
		f := core.Pick(r, fmts.All)
		c.Iter, c.Format = "file", f.Name
		doc := f.Gen(r, core.Pick(r, []fmts.Size{fmts.Small, fmts.Multi}))
		c.Input = doc.Render("\n")
		if r.Chance(0.35) {
			c.Input = fmts.Mutate(r, f, c.Input)
		}
		if len(c.Input) > 700 {
			c.Input = c.Input[:700]
		}
		kind := core.Pick(r, []string{"plain", "plain", "gz", "gz", "gztrunc", "gztrunc", "dir", "missing"})
		cfg := &sim.FileCfg{Kind: kind, Level: core.Pick(r, []int{0, 1, 6, 9})}
		if kind == "gztrunc" {
			z := sim.Gzip(c.Input, cfg.Level)
			cfg.Cut = r.Range(0, len(z)-9)
		}
		c.File = cfg
		if (kind == "plain" || kind == "gz") && r.Chance(0.04) {
			c.FDBurst = FDLimit + 100
		}
		if r.Chance(0.0008) { // a file beyond 8 MiB: size-driven strategies (read-ahead helpers) switch on
			f = core.Pick(r, []*fmts.Format{fmts.Fasta, fmts.Fastq})
			c.Format = f.Name
			var b bytes.Buffer
			nrec := 0
			for total := r.Range(9<<20, 11<<20); b.Len() < total; nrec++ {
				l := r.Range(30000, 90000)
				if f == fmts.Fasta {
					fmt.Fprintf(&b, ">r%d\n", nrec)
					b.Write(r.Bytes(l, "ACGT"))
					b.WriteString("\n")
				} else {
					fmt.Fprintf(&b, "@r%d\n", nrec)
					b.Write(r.Bytes(l, "ACGT"))
					b.WriteString("\n+\n")
					b.Write(r.Bytes(l, "IJ"))
					b.WriteString("\n")
				}
			}
			c.Input = b.Bytes()
			c.File = &sim.FileCfg{Kind: "plain"}
			c.FDBurst = 0
			c.Stops = []int{0, 1, nrec / 2, nrec - 1}
			ctx.Stats.Inc("probe/file_over_8MiB")
		}
	case x < 82:
		c.Iter = core.Pick(r, []string{"preorder", "postorder"})
		budget := r.Range(1, 40)
		depth := r.Range(0, 5)
		if r.Chance(0.05) {
			budget, depth = r.Range(100, 400), r.Range(3, 9) // beyond any small fixed-size internal stack
		}
		if long {
			budget, depth = r.Range(66000, 140000), r.Range(4, 12)
		}
		c.Rec = &WriteRec{Newick: genTreeSpec(r, depth, &budget)}
		if !long && r.Chance(0.04) {
			// a deep tree: a spine of 30-300 levels with a few side branches, so that
			// the traversal's explicit stack grows past 32/64/128/256 entries before a stop
			ctx.Stats.Inc("probe/deep_tree")
			root := &NodeSpec{}
			cur := root
			for d, levels := 0, core.Pick(r, []int{r.Range(30, 70), r.Range(60, 140), r.Range(120, 300)}); d < levels; d++ {
				next := &NodeSpec{}
				if r.Chance(0.15) {
					cur.Children = append(cur.Children, &NodeSpec{})
				}
				cur.Children = append(cur.Children, next)
				if r.Chance(0.15) {
					cur.Children = append(cur.Children, &NodeSpec{})
				}
				cur = next
			}
			c.Rec = &WriteRec{Newick: root}
		}
		if long {
			for c.Rec.Newick.count() < 66000 { // top up with leaves under the root
				c.Rec.Newick.Children = append(c.Rec.Newick.Children, &NodeSpec{})
			}
			c.Stops = stopsFor(c.Rec.Newick.count())
		}
		if n := c.Rec.Newick; len(n.Children) > 0 {
			for _, ch := range n.Children {
				if len(ch.Children) > 0 {
					ctx.Stats.Inc("probe/traversal_stopped_at_root_internal_and_leaf")
					break
				}
			}
		}
	case x < 92:
		c.Iter = "foreach"
		depthT := 14
		if r.Chance(0.05) {
			depthT = 120 // a trie with many members
		}
		tc := genTrieCase(r, depthT)
		var ops []TrieOp
		for _, op := range tc.Ops {
			if op.Op == "add" || op.Op == "del" || op.Op == "fanout" {
				op.Scribble, op.Nested = false, 0
				ops = append(ops, op)
			}
		}
		tc.Ops = ops
		c.Trie = tc
	default:
		c.Iter = "canon"
		c.Input = r.Bytes(r.Range(0, 40), "ACGTN")
		if r.Chance(0.05) {
			c.Input = r.Bytes(r.Range(100, 400), "ACGTNacgtn")
		}
		c.K = r.Range(0, len(c.Input)+2)
		if len(c.Input) > 40 && r.Chance(0.7) {
			c.K = r.Range(1, 12)
		}
		if long {
			c.Input = r.Bytes(r.Range(66000, 140000), "ACGT")
			c.K = r.Range(1, 31)
			c.Stops = stopsFor(len(c.Input) - c.K + 1)
		}
	}
	ctx.EvS(describe(c))
	v, info := execC18Info(c)
	ctx.Stats.Inc("cases/" + info.name)
	ctx.EvalN(int64(1 + 3*info.stops))
	if info.reusable {
		ctx.EvalN(int64(3 * info.stops))
		ctx.Stats.Add("fault_fired/rerun_same_iterator_after_stop", int64(3*info.stops))
	}
	if info.skipped != "" {
		ctx.Stats.Inc("skipped_" + info.skipped + "/" + info.name)
	} else {
		ctx.Stats.Add("fault_fired/consumer_stop", int64(3*info.stops))
		if c.Stops == nil {
			ctx.Stats.Add("stop_positions_enumerated/"+info.name, int64(info.stops))
		} else {
			ctx.Stats.Add("stop_positions_sampled_in_long_iterations/"+info.name, int64(info.stops))
		}
		if info.n > 0 {
			ctx.Stats.Inc("probe/stop_on_first_and_last_item/" + info.name)
			ctx.Seen(core.HashString(describe(c)))
		} else {
			ctx.Stats.Inc("cases_with_no_items/" + info.name)
		}
		if info.errItems > 0 {
			ctx.Stats.Add("probe/stop_on_error_item/"+info.name, int64(info.errItems))
			if info.errItems > 1 || (c.Format == "sam" || c.Format == "samh") && info.n > info.errItems {
				ctx.Stats.Inc("probe/error_item_mid_stream/" + info.name)
			}
		}
		if c.Plan != nil && c.Plan.Fault != nil {
			ctx.Stats.Inc("fault_fired/read_fault_environment")
			if c.Plan.Fault.Resume {
				ctx.Stats.Inc("fault_fired/read_fault_transient_data_resumes")
			}
		}
		if c.File != nil {
			ctx.Stats.Inc("fault_fired/file_" + c.File.Kind)
		}
		if c.FDBurst > 0 && info.n > 0 {
			ctx.Stats.Inc("fault_fired/descriptor_budget_burst_of_stopped_walks")
			ctx.EvalN(int64(c.FDBurst))
		}
		if c.Iter == "canon" && c.K > len(c.Input) {
			ctx.Stats.Inc("probe/canon_k_greater_than_len")
		}
	}
	ctx.EvU(uint64(info.n), uint64(info.errItems))
	if v != nil {
		ctx.EvS(v.Key)
		report(ctx, c, v)
	}
	if ctx.Run() < 64 {
		d := describe(c)
		if len(d) > 400 {
			d = d[:400]
		}
		ctx.Sample(map[string]any{"case": d, "items_in_full_run": info.n, "stop_positions_x_styles": 3 * info.n})
	}
}
