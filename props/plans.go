package props

import (
	"strings"

	"verif/core"
	"verif/sim"
)

// Plan styles (DESIGN §4.1).
var planStyles = []string{"one", "uniform", "geometric", "hunter", "bigbuf", "whole"}

// genPlan draws a delivery plan of the given style for the input.
func genPlan(r *core.Rng, style string, input []byte, special string) sim.Plan {
	var p sim.Plan
	n := len(input)
	if n > 500000 && style != "whole" {
		style = "bigbuf" // lines beyond 1 MiB: reads of 512 bytes and more only
	}
	switch style {
	case "whole":
		p.Tail = 0
	case "one":
		p.Tail = 1
	case "uniform":
		k := r.Range(1, 9)
		for got := 0; got < n; {
			c := r.Range(1, k)
			p.Chunks = append(p.Chunks, c)
			got += c
		}
	case "geometric":
		m := core.Pick(r, []int{2, 5, 20, 200})
		if n > 50000 {
			m = 200 // bufio.Scanner rescans its buffer after every read: tiny reads on long lines are quadratic
		}
		for got := 0; got < n; {
			c := r.Geom(m)
			p.Chunks = append(p.Chunks, c)
			got += c
		}
	case "hunter":
		// cuts immediately before / after / between special bytes
		last := 0
		for i := 0; i < n; i++ {
			if strings.IndexByte(special, input[i]) < 0 {
				continue
			}
			for _, cut := range []int{i, i + 1} {
				if cut > last && cut < n && r.Chance(0.6) {
					p.Chunks = append(p.Chunks, cut-last)
					last = cut
				}
			}
		}
		p.Tail = 0
	case "bigbuf":
		// whole-buffer reads with the first one offset, so that bufio refills land mid-token
		first := r.Range(1, 4096)
		p.Chunks = append(p.Chunks, first)
		p.Tail = core.Pick(r, []int{4096, 4095, 4097, 512, 8192})
	}
	// stalls: at most two consecutive, far below bufio's 100-empty-read limit
	if r.Chance(0.3) && len(p.Chunks) > 0 {
		var out []int
		for _, c := range p.Chunks {
			if r.Chance(0.1) {
				out = append(out, 0)
				if r.Chance(0.3) {
					out = append(out, 0)
				}
			}
			out = append(out, c)
		}
		p.Chunks = out
	} else if r.Chance(0.1) {
		p.Chunks = append([]int{0}, p.Chunks...)
	}
	p.EOFWithData = r.Chance(0.4)
	return p
}

// hashPlanSeq hashes the delivery sequence actually executed.
func hashSeq(seq []int) uint64 {
	h := uint64(1469598103934665603)
	for _, x := range seq {
		h = (h ^ uint64(int64(x))) * 1099511628211
	}
	return h
}
