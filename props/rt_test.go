package props

import (
	"encoding/json"
	"testing"

	"verif/core"
)

func TestRecRoundTrip(t *testing.T) {
	r := core.NewRng(7)
	for i := 0; i < 2000; i++ {
		for _, f := range []string{"fasta", "fastq", "sam", "bed", "newick"} {
			rec := genRec(r, f, false)
			c := &Case{Clause: "C07.write", Rec: rec}
			d := c.Clone()
			a, _ := json.Marshal(c)
			b, _ := json.Marshal(d)
			if string(a) != string(b) {
				t.Fatalf("clone differs: %s vs %s", a, b)
			}
			var e Case
			if err := json.Unmarshal(a, &e); err != nil {
				t.Fatal(err)
			}
			x, _ := json.Marshal(&e)
			if string(x) != string(a) {
				t.Fatalf("json round trip differs")
			}
		}
	}
}
