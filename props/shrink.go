package props

import (
	"bytes"
)

// ShrinkBudget bounds the candidate executions per violation (deterministic:
// a count, not a timer).
const ShrinkBudget = 2500

// Shrink greedily minimises a violating case while it keeps violating the same
// clause key. Candidate order is fixed, so shrinking is deterministic.
func Shrink(c *Case, key string) (res *Case, n int) {
	execs := 0
	budget := ShrinkBudget
	switch sz := c.Size(); { // an execution of a huge case costs up to a second: keep minimisation within minutes
	case sz > 2<<20:
		budget = 40
	case sz > 200000:
		budget = 400
	}
	type budgetDone struct{}
	fails := func(x *Case) bool {
		if execs >= budget {
			panic(budgetDone{}) // unwinds out of whatever candidate loop is running
		}
		execs++
		v := Exec(x)
		return v != nil && v.Key == key
	}
	cur := c.Clone()
	defer func() {
		if r := recover(); r != nil {
			if _, ok := r.(budgetDone); !ok {
				panic(r)
			}
			res, n = cur, execs
		}
	}()
	for progress := true; progress && execs < budget; {
		progress = false
		for _, gen := range []func(*Case, func(*Case) bool) bool{shrinkPlan, shrinkInput, shrinkMisc, shrinkRec, shrinkTrie, shrinkRegions} {
			if execs >= budget {
				break
			}
			if gen(cur, func(cand *Case) bool {
				if fails(cand) {
					*cur = *cand
					return true
				}
				return false
			}) {
				progress = true
			}
		}
	}
	return cur, execs
}

// cutInput removes input[p:q] and adjusts everything that refers to offsets.
func cutInput(c *Case, p, q int) *Case {
	d := c.Clone()
	d.Input = append(append([]byte{}, c.Input[:p]...), c.Input[q:]...)
	if d.Plan != nil && d.Plan.Fault != nil {
		off := d.Plan.Fault.Offset
		switch {
		case off >= q:
			off -= q - p
		case off > p:
			off = p
		}
		d.Plan.Fault.Offset = off
	}
	return d
}

func shrinkInput(c *Case, try func(*Case) bool) bool {
	if len(c.Input) == 0 {
		return false
	}
	any := false
	ddmin := func(from, to int) {
		for size := from; size >= to && size >= 1; size /= 2 {
			for p := 0; p+size <= len(c.Input); {
				if try(cutInput(c, p, p+size)) {
					any = true
					continue
				}
				p += size
			}
		}
	}
	// coarse chunks first (cheap for large inputs), then whole lines, then fine chunks
	ddmin(len(c.Input)/2, len(c.Input)/32+1)
	// groups of k consecutive lines (records span several lines: 4 in FASTQ)
	for _, k := range []int{8, 4, 3, 2, 1} {
		for again := true; again; {
			again = false
			lines := bytes.SplitAfter(c.Input, []byte("\n"))
			if n := len(lines); n > 0 && len(lines[n-1]) == 0 {
				lines = lines[:n-1]
			}
			if len(lines) < k || (len(lines) == k && k > 1) {
				break
			}
			pos := 0
			for i := 0; i+k <= len(lines); i++ {
				sz := 0
				for _, l := range lines[i : i+k] {
					sz += len(l)
				}
				if sz < len(c.Input) && try(cutInput(c, pos, pos+sz)) {
					any, again = true, true
					break
				}
				pos += len(lines[i])
			}
		}
	}
	ddmin(len(c.Input)/2, 1)
	// simplify bytes
	if len(c.Input) <= 200 {
		for i := 0; i < len(c.Input); i++ {
			b := c.Input[i]
			if b == 'A' || b == '\n' || b < 0x20 || bytes.IndexByte([]byte(">@+\t,;:()'#\"0123456789"), b) >= 0 {
				continue
			}
			d := c.Clone()
			d.Input[i] = 'A'
			if try(d) {
				any = true
			}
		}
	}
	return any
}

func shrinkPlan(c *Case, try func(*Case) bool) bool {
	if c.Plan == nil {
		return false
	}
	any := false
	if len(c.Plan.Chunks) > 0 || c.Plan.Tail != 0 {
		d := c.Clone()
		d.Plan.Chunks, d.Plan.Tail = nil, 0
		if try(d) {
			return true
		}
	}
	if len(c.Plan.Chunks) > 0 {
		d := c.Clone()
		d.Plan.Chunks, d.Plan.Tail = nil, 1
		if try(d) {
			any = true
		}
	}
	// drop stalls
	for i := 0; i < len(c.Plan.Chunks); i++ {
		if c.Plan.Chunks[i] == 0 {
			d := c.Clone()
			d.Plan.Chunks = append(d.Plan.Chunks[:i], d.Plan.Chunks[i+1:]...)
			if try(d) {
				any = true
				i--
			}
		}
	}
	// merge adjacent chunks
	for i := 0; i+1 < len(c.Plan.Chunks); {
		d := c.Clone()
		d.Plan.Chunks[i] += d.Plan.Chunks[i+1]
		d.Plan.Chunks = append(d.Plan.Chunks[:i+1], d.Plan.Chunks[i+2:]...)
		if try(d) {
			any = true
			continue
		}
		i++
	}
	// drop a trailing chunk list beyond the input
	if c.Plan.EOFWithData {
		d := c.Clone()
		d.Plan.EOFWithData = false
		if try(d) {
			any = true
		}
	}
	if f := c.Plan.Fault; f != nil {
		if f.WithData {
			d := c.Clone()
			d.Plan.Fault.WithData = false
			if try(d) {
				any = true
			}
		}
		if c.Plan.Fault.Forever {
			d := c.Clone()
			d.Plan.Fault.Forever = false
			if try(d) {
				any = true
			}
		}
		if c.Plan.Fault.Kind != "" {
			d := c.Clone()
			d.Plan.Fault.Kind = ""
			if try(d) {
				any = true
			}
		}
		if c.Plan.Fault.Resume {
			d := c.Clone()
			d.Plan.Fault.Resume = false
			if try(d) {
				any = true
			}
		}
	}
	return any
}

func shrinkMisc(c *Case, try func(*Case) bool) bool {
	any := false
	if c.Consumer != nil && c.Consumer.Style != "direct" {
		d := c.Clone()
		d.Consumer.Style = "direct"
		if try(d) {
			any = true
		}
	}
	if c.Consumer != nil && c.Consumer.StopAt > 0 {
		d := c.Clone()
		d.Consumer.StopAt = 0
		if try(d) {
			any = true
		}
	}
	if c.File != nil && c.File.Kind == "gz2" {
		d := c.Clone()
		d.File.Kind = "gz"
		if try(d) {
			any = true
		}
	}
	if c.File != nil && c.File.Kind == "gz" {
		d := c.Clone()
		d.File.Kind = "plain"
		if try(d) {
			any = true
		}
	}
	if c.Sink != nil && c.Sink.Rich {
		d := c.Clone()
		d.Sink.Rich = false
		if try(d) {
			any = true
		}
	}
	if c.Sink != nil && c.Sink.Sticky {
		d := c.Clone()
		d.Sink.Sticky = false
		if try(d) {
			any = true
		}
	}
	return any
}

func shrinkRec(c *Case, try func(*Case) bool) bool {
	if c.Rec == nil {
		return false
	}
	any := false
	attempt := func(mut func(r *WriteRec) bool) {
		d := c.Clone()
		if !mut(d.Rec) {
			return
		}
		// keep the failing sink offset inside the new output: try the same K and K clipped
		if try(d) {
			any = true
			return
		}
		if d.Sink != nil {
			for _, k := range []int{0, d.Sink.K / 2} {
				e := d.Clone()
				e.Sink.K = k
				if try(e) {
					any = true
					return
				}
			}
		}
	}
	switch r := c.Rec; {
	case r.Fasta != nil:
		attempt(func(r *WriteRec) bool {
			ok := len(r.Fasta.Sequence) > 0
			r.Fasta.Sequence = r.Fasta.Sequence[:len(r.Fasta.Sequence)/2]
			return ok
		})
		attempt(func(r *WriteRec) bool { ok := len(r.Fasta.Name) > 0; r.Fasta.Name = nil; return ok })
	case r.Fastq != nil:
		attempt(func(r *WriteRec) bool {
			ok := len(r.Fastq.Sequence) > 0
			r.Fastq.Sequence, r.Fastq.Quals = nil, nil
			return ok
		})
		attempt(func(r *WriteRec) bool { ok := len(r.Fastq.Name) > 0; r.Fastq.Name = nil; return ok })
	case r.Bed != nil:
		attempt(func(r *WriteRec) bool { ok := r.Bed.N > 3; r.Bed.N--; return ok })
		attempt(func(r *WriteRec) bool {
			ok := len(r.Bed.BlockSizes) > 1
			if ok {
				r.Bed.BlockSizes = r.Bed.BlockSizes[:1]
			}
			return ok
		})
		attempt(func(r *WriteRec) bool {
			ok := len(r.Bed.BlockStarts) > 1
			if ok {
				r.Bed.BlockStarts = r.Bed.BlockStarts[:1]
			}
			return ok
		})
	case r.Sam != nil:
		attempt(func(r *WriteRec) bool {
			ok := len(r.Sam.Tags) > 0
			if ok {
				r.Sam.Tags = r.Sam.Tags[:len(r.Sam.Tags)-1]
			}
			return ok
		})
		attempt(func(r *WriteRec) bool { ok := len(r.Sam.Seq) > 0; r.Sam.Seq, r.Sam.Qual = "", ""; return ok })
	case r.Newick != nil:
		attempt(func(r *WriteRec) bool {
			ok := len(r.Newick.Children) > 0
			if ok {
				r.Newick.Children = r.Newick.Children[:len(r.Newick.Children)-1]
			}
			return ok
		})
	}
	return any
}
