package props

import "verif/core"

type RegionsCase struct{}

func (t *RegionsCase) size() int      { return 0 }
func (t *RegionsCase) String() string { return "" }

func execC16(c *Case) *Verdict { return nil }

func shrinkRegions(c *Case, try func(*Case) bool) bool { return false }

func RunC16(ctx *core.Ctx, r *core.Rng) {}
