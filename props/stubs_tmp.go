package props

import "verif/core"

type TrieCase struct{}

func (t *TrieCase) size() int      { return 0 }
func (t *TrieCase) String() string { return "" }

type RegionsCase struct{}

func (t *RegionsCase) size() int      { return 0 }
func (t *RegionsCase) String() string { return "" }

func execC18(c *Case) *Verdict { return nil }
func execC15(c *Case) *Verdict { return nil }
func execC16(c *Case) *Verdict { return nil }

func shrinkTrie(c *Case, try func(*Case) bool) bool    { return false }
func shrinkRegions(c *Case, try func(*Case) bool) bool { return false }

func RunC18(ctx *core.Ctx, r *core.Rng) {}
func RunC15(ctx *core.Ctx, r *core.Rng) {}
func RunC16(ctx *core.Ctx, r *core.Rng) {}
