package props

import (
	"encoding/hex"
	"fmt"
	"io"
	"strconv"

	"verif/core"

	"github.com/fluhus/biostuff/formats/bed"
	"github.com/fluhus/biostuff/formats/fasta"
	"github.com/fluhus/biostuff/formats/fastq"
	"github.com/fluhus/biostuff/formats/newick"
	"github.com/fluhus/biostuff/formats/sam"
)

// TagSpec is one typed SAM tag in replayable form.
type TagSpec struct {
	Key  string `json:"key"`
	Type string `json:"type"` // A i f Z H
	Val  string `json:"val"`
}

// SamSpec is a SAM record in replayable form.
type SamSpec struct {
	Qname, Rname, Cigar, Rnext, Seq, Qual string
	Flag, Pos, Mapq, Pnext, Tlen          int
	Tags                                  []TagSpec
}

// NodeSpec is a Newick tree in replayable form.
type NodeSpec struct {
	Name     string      `json:"name"`
	Distance float64     `json:"dist"`
	Children []*NodeSpec `json:"children,omitempty"`
}

// FastaSpec, FastqSpec, BedSpec mirror the library's record types. (The
// library types implement MarshalText, so encoding/json would write them as
// one string and could not read them back.)
type FastaSpec struct {
	Name     []byte `json:"name"`
	Sequence []byte `json:"sequence"`
}

type FastqSpec struct {
	Name     []byte `json:"name"`
	Sequence []byte `json:"sequence"`
	Quals    []byte `json:"quals"`
}

type BedSpec struct {
	N                                                 int
	Chrom, Name, Strand                               string
	ChromStart, ChromEnd, Score, ThickStart, ThickEnd int
	ItemRGB                                           [3]int
	BlockCount                                        int
	BlockSizes, BlockStarts                           []int
}

func (b *BedSpec) bed() *bed.BED {
	return &bed.BED{N: b.N, Chrom: b.Chrom, ChromStart: b.ChromStart, ChromEnd: b.ChromEnd, Name: b.Name, Score: b.Score,
		Strand: b.Strand, ThickStart: b.ThickStart, ThickEnd: b.ThickEnd,
		ItemRGB: [3]byte{byte(b.ItemRGB[0]), byte(b.ItemRGB[1]), byte(b.ItemRGB[2])}, BlockCount: b.BlockCount,
		BlockSizes: append([]int(nil), b.BlockSizes...), BlockStarts: append([]int(nil), b.BlockStarts...)}
}

// WriteRec is a record for the write-side clause; exactly one field is set.
type WriteRec struct {
	Fasta  *FastaSpec `json:"fasta,omitempty"`
	Fastq  *FastqSpec `json:"fastq,omitempty"`
	Bed    *BedSpec   `json:"bed,omitempty"`
	Sam    *SamSpec   `json:"sam,omitempty"`
	Newick *NodeSpec  `json:"newick,omitempty"`
}

func (n *NodeSpec) node() *newick.Node {
	if n == nil {
		return nil
	}
	out := &newick.Node{Name: n.Name, Distance: n.Distance}
	for _, c := range n.Children {
		out.Children = append(out.Children, c.node())
	}
	return out
}

func (n *NodeSpec) count() int {
	if n == nil {
		return 0
	}
	k := 1 + len(n.Name)
	for _, c := range n.Children {
		k += c.count()
	}
	return k
}

func (s *SamSpec) sam() *sam.SAM {
	out := &sam.SAM{Qname: s.Qname, Flag: sam.Flag(s.Flag), Rname: s.Rname, Pos: s.Pos, Mapq: s.Mapq, Cigar: s.Cigar,
		Rnext: s.Rnext, Pnext: s.Pnext, Tlen: s.Tlen, Seq: s.Seq, Qual: s.Qual}
	if s.Tags != nil {
		out.Tags = map[string]any{}
	}
	for _, t := range s.Tags {
		switch t.Type {
		case "A":
			out.Tags[t.Key] = byte(t.Val[0])
		case "i":
			x, _ := strconv.Atoi(t.Val)
			out.Tags[t.Key] = x
		case "f":
			x, _ := strconv.ParseFloat(t.Val, 64)
			out.Tags[t.Key] = x
		case "H":
			x, _ := hex.DecodeString(t.Val)
			out.Tags[t.Key] = x
		default:
			out.Tags[t.Key] = t.Val
		}
	}
	return out
}

// Write calls the record's real Write method.
func (r *WriteRec) Write(w io.Writer) error {
	switch {
	case r.Fasta != nil:
		return (&fasta.Fasta{Name: r.Fasta.Name, Sequence: r.Fasta.Sequence}).Write(w)
	case r.Fastq != nil:
		return (&fastq.Fastq{Name: r.Fastq.Name, Sequence: r.Fastq.Sequence, Quals: r.Fastq.Quals}).Write(w)
	case r.Bed != nil:
		return r.Bed.bed().Write(w)
	case r.Sam != nil:
		return r.Sam.sam().Write(w)
	case r.Newick != nil:
		return r.Newick.node().Write(w)
	}
	panic("empty WriteRec")
}

// Format names the codec.
func (r *WriteRec) Format() string {
	switch {
	case r.Fasta != nil:
		return "fasta"
	case r.Fastq != nil:
		return "fastq"
	case r.Bed != nil:
		return "bed"
	case r.Sam != nil:
		return "sam"
	case r.Newick != nil:
		return "newick"
	}
	return "?"
}

func (r *WriteRec) String() string {
	switch {
	case r.Fasta != nil:
		return fmt.Sprintf("fasta{%q %q}", r.Fasta.Name, trunc(r.Fasta.Sequence, 200))
	case r.Fastq != nil:
		return fmt.Sprintf("fastq{%q %q %q}", r.Fastq.Name, r.Fastq.Sequence, r.Fastq.Quals)
	case r.Bed != nil:
		return fmt.Sprintf("bed%+v", *r.Bed)
	case r.Sam != nil:
		return fmt.Sprintf("sam%+v", *r.Sam)
	case r.Newick != nil:
		return "newick" + fmtsNode(r.Newick)
	}
	return "?"
}

func fmtsNode(n *NodeSpec) string {
	s := fmt.Sprintf("(%q:%v", n.Name, n.Distance)
	for _, c := range n.Children {
		s += " " + fmtsNode(c)
	}
	return s + ")"
}

func (r *WriteRec) size() int {
	switch {
	case r.Fasta != nil:
		return len(r.Fasta.Name) + len(r.Fasta.Sequence)
	case r.Fastq != nil:
		return len(r.Fastq.Name) + len(r.Fastq.Sequence) + len(r.Fastq.Quals)
	case r.Bed != nil:
		return r.Bed.N + len(r.Bed.BlockSizes) + len(r.Bed.BlockStarts) + len(r.Bed.Chrom) + len(r.Bed.Name)
	case r.Sam != nil:
		return len(r.Sam.Tags)*4 + len(r.Sam.Seq) + len(r.Sam.Qual) + len(r.Sam.Qname)
	case r.Newick != nil:
		return r.Newick.count()
	}
	return 0
}

func genNode(r *core.Rng, depth int) *NodeSpec {
	n := &NodeSpec{}
	if r.Chance(0.7) {
		n.Name = string(r.Bytes(r.Range(0, 6), "ab _'(),:;\tXY9"))
	}
	if r.Chance(0.5) {
		n.Distance = core.Pick(r, []float64{1, 0.5, -2, 1e-9, 12345.678})
	}
	if depth > 0 {
		for k := r.Intn(4); k > 0; k-- {
			n.Children = append(n.Children, genNode(r, depth-1))
		}
	}
	return n
}

// genRec draws a record of the format.
// bigLen is an occasional payload size beyond what a writer might buffer
// internally (4 KiB, 64 KiB); 0 means "no".
func bigLen(r *core.Rng, huge bool) int {
	switch x := r.Intn(100); {
	case x < 6:
		return core.Pick(r, []int{4000, 4096, 4100, 8200, 9000}) + r.Range(-3, 3)
	case x < 8 && huge:
		return core.Pick(r, []int{65536, 70000, 131072}) + r.Range(-3, 3)
	}
	return 0
}

func genRec(r *core.Rng, format string, huge bool) *WriteRec {
	big := bigLen(r, huge)
	switch format {
	case "fasta":
		seqLen := core.Pick(r, []int{0, 1, 5, 79, 80, 81, 160, 161, 200, 400})
		if r.Chance(0.5) {
			seqLen = r.Range(0, 260)
		}
		if big > 0 {
			seqLen = big
		}
		return &WriteRec{Fasta: &FastaSpec{Name: r.Bytes(r.Range(0, 10), "abc XY|9"), Sequence: r.Bytes(seqLen, "ACGT")}}
	case "fastq":
		n := r.Range(0, 120)
		if big > 0 {
			n = big
		}
		return &WriteRec{Fastq: &FastqSpec{Name: r.Bytes(r.Range(0, 10), "abc XY|9"), Sequence: r.Bytes(n, "ACGT"), Quals: r.Bytes(n, "!5I~")}}
	case "bed":
		bc := r.Intn(5)
		b := &BedSpec{N: r.Range(3, 12), Chrom: "chr" + string(r.Bytes(r.Range(0, 3), "12XY")), ChromStart: r.Intn(100000),
			ChromEnd: r.Intn(100000), Name: string(r.Bytes(r.Range(0, 8), "abcXY9_")), Score: r.Intn(1001),
			Strand: core.Pick(r, []string{"+", "-", "."}), ThickStart: r.Intn(5000), ThickEnd: r.Intn(5000),
			ItemRGB: [3]int{r.Intn(256), r.Intn(256), r.Intn(256)}, BlockCount: bc}
		if big > 0 {
			bc = big / 12 // hundreds of blocks: an output beyond a small internal buffer
			b.BlockCount = bc
		}
		for i := 0; i < bc; i++ {
			b.BlockSizes = append(b.BlockSizes, r.Intn(1000))
			b.BlockStarts = append(b.BlockStarts, r.Intn(1000))
		}
		if r.Chance(0.15) {
			b.BlockSizes = nil // an empty list: the Fprintf("\t") before it is the only write of that field
		}
		return &WriteRec{Bed: b}
	case "sam":
		n := r.Range(0, 60)
		if big > 0 {
			n = big
		}
		s := &SamSpec{Qname: string(r.Bytes(r.Range(0, 8), "abcXY9_")), Flag: r.Intn(4096), Rname: "chr1", Pos: r.Intn(100000),
			Mapq: r.Intn(256), Cigar: core.Pick(r, []string{"*", "10M", "3S7M"}), Rnext: "=", Pnext: r.Intn(1000), Tlen: r.Intn(1000) - 500,
			Seq: string(r.Bytes(n, "ACGT")), Qual: string(r.Bytes(n, "!5I~"))}
		for i, k := 0, r.Intn(5); i < k; i++ {
			key := fmt.Sprintf("X%c", 'a'+byte(i))
			switch r.Intn(5) {
			case 0:
				s.Tags = append(s.Tags, TagSpec{key, "A", string(r.Bytes(1, "abcXYZ"))})
			case 1:
				s.Tags = append(s.Tags, TagSpec{key, "i", strconv.Itoa(r.Intn(1000) - 500)})
			case 2:
				s.Tags = append(s.Tags, TagSpec{key, "f", core.Pick(r, []string{"1.5", "-0.25", "1e+10"})})
			case 3:
				s.Tags = append(s.Tags, TagSpec{key, "Z", string(r.Bytes(r.Range(0, 10), "abc XY:9"))})
			case 4:
				s.Tags = append(s.Tags, TagSpec{key, "H", core.Pick(r, []string{"", "1ae3", "00ff"})})
			}
		}
		return &WriteRec{Sam: s}
	case "newick":
		n := genNode(r, 3)
		if big > 0 {
			for i := 0; i < big/6; i++ { // a wide tree: thousands of leaves
				n.Children = append(n.Children, &NodeSpec{Name: string(r.Bytes(4, "abcXY9"))})
			}
		}
		return &WriteRec{Newick: n}
	}
	panic("genRec: " + format)
}
