package props

import (
	"bytes"
	"fmt"
	"iter"
	"slices"
	"sort"
	"strings"

	"verif/core"
	"verif/fmts"
	"verif/sim"
)

// C06 — decoding is independent of how bytes are delivered; File equals Reader.
//
// Clauses:
//   C06.schedule     Reader over a delivery plan differs from the one-shot decode
//   C06.crlf         well-formed input decodes differently (or with errors) with CRLF terminators
//   C06.file.<kind>  File(path) differs from Reader on the file's bytes (plain, gz, gz2)
//   C06.unopenable.<kind>  File on a path that cannot be opened does not yield exactly error items (>= 1)
// each with .panic / .nontermination variants.

func diffVerdict(clause, key string, ref []fmts.Item, out sim.Outcome[fmts.Item]) *Verdict {
	if out.Panic != "" {
		return &Verdict{Clause: clause + ".panic", Key: clause + ".panic/" + key, Detail: "panic: " + out.Panic,
			Expected: fmts.Strings(ref), Observed: fmts.Strings(out.Items)}
	}
	if out.Capped != "" {
		return &Verdict{Clause: clause + ".nontermination", Key: clause + ".nontermination/" + key,
			Detail: "iteration did not end: step cap " + out.Capped, Expected: fmts.Strings(ref), Observed: fmts.Strings(out.Items)}
	}
	if !sameKeys(ref, out.Items) {
		i := 0
		for i < len(ref) && i < len(out.Items) && ref[i].Key() == out.Items[i].Key() {
			i++
		}
		return &Verdict{Clause: clause, Key: clause + "/" + key,
			Detail:   fmt.Sprintf("item sequences differ at index %d (reference has %d items, observed %d)", i, len(ref), len(out.Items)),
			Expected: fmts.Strings(ref), Observed: fmts.Strings(out.Items)}
	}
	// The records as a consumer that KEPT them holds them after the iteration: they
	// too must not depend on the delivery. Differential like everything here: a
	// library that reused record memory in the same way under every delivery would
	// pass; one whose kept records change with the read sizes does not.
	if lr, lo := fmts.LateKeys(ref), fmts.LateKeys(out.Items); !slices.Equal(lr, lo) {
		i := 0
		for i < len(lr) && i < len(lo) && lr[i] == lo[i] {
			i++
		}
		return &Verdict{Clause: clause + ".retained", Key: clause + ".retained/" + key,
			Detail:   fmt.Sprintf("the yielded sequences were equal, but the records a consumer kept differ after the iteration, first at index %d (record memory is shared with the decoder)", i),
			Expected: lr, Observed: lo}
	}
	return nil
}

func refOf(f *fmts.Format, input []byte) ([]fmts.Item, bool) {
	o := oneShot(f, input)
	if o.Panic != "" || o.Capped != "" {
		return nil, false // a panic in the plain decode is parser totality (C11), not decided here
	}
	return o.Items, true
}

func toCRLF(lf []byte) []byte { return bytes.ReplaceAll(lf, []byte("\n"), []byte("\r\n")) }

func execC06(c *Case) *Verdict { return execC06Ref(c, nil, false) }

func execC06Ref(c *Case, ref []fmts.Item, haveRef bool) *Verdict {
	f := fmts.ByName(c.Format)
	if !haveRef && c.Clause != "C06.unopenable" {
		var ok bool
		if ref, ok = refOf(f, c.Input); !ok {
			return nil
		}
	}
	never := sim.ConsumerPlan{Style: sim.Direct, StopAt: -1}
	switch c.Clause {
	case "C06.schedule":
		st := sim.NewStream(c.Input, *c.Plan)
		out := sim.Consume(f.Reader(st), never, len(ref)+sim.LiveB)
		return diffVerdict("C06.schedule", f.Name, ref, out)
	case "C06.crlf":
		if hasErr(ref) || bytes.IndexByte(c.Input, '\r') >= 0 {
			return nil // not well-formed for this clause
		}
		plan := sim.Plan{}
		if c.Plan != nil {
			plan = *c.Plan
		}
		st := sim.NewStream(toCRLF(c.Input), plan)
		out := sim.Consume(f.Reader(st), never, len(ref)+sim.LiveB)
		return diffVerdict("C06.crlf", f.Name, ref, out)
	case "C06.interleaved":
		// two decodes alive at the same time (as in a nested or lock-step loop), after one
		// decode has already run to the end in this process; each must equal its own reference
		ref2, ok := refOf(f, c.Input2)
		if !ok {
			return nil
		}
		plan := sim.Plan{}
		if c.Plan != nil {
			plan = *c.Plan
		}
		next1, stop1 := iter.Pull(f.Reader(sim.NewStream(c.Input, plan)))
		next2, stop2 := iter.Pull(f.Reader(sim.NewStream(c.Input2, plan)))
		var a, b []fmts.Item
		var pan any
		func() {
			defer func() { pan = recover() }()
			defer stop1()
			defer stop2()
			for live1, live2 := true, true; live1 || live2; {
				if live1 {
					if it, ok := next1(); ok {
						a = append(a, it)
					} else {
						live1 = false
					}
				}
				if live2 {
					if it, ok := next2(); ok {
						b = append(b, it)
					} else {
						live2 = false
					}
				}
				if len(a) > len(ref)+sim.LiveB || len(b) > len(ref2)+sim.LiveB {
					panic(sim.StepCap{What: "items"})
				}
			}
		}()
		out := sim.Outcome[fmts.Item]{Items: a, Completed: pan == nil}
		if pan != nil {
			if sc, ok := pan.(sim.StepCap); ok {
				out.Capped = sc.What
			} else {
				out.Panic = fmt.Sprint(pan)
			}
		}
		if v := diffVerdict("C06.interleaved", f.Name, ref, out); v != nil {
			return v
		}
		out.Items = b
		return diffVerdict("C06.interleaved", f.Name, ref2, out)
	case "C06.file":
		cfg := *c.File
		cfg.Ext = f.Ext
		path, cleanup := Disk.Materialise(&cfg, c.Input)
		defer cleanup()
		seq := f.File(path)
		out := sim.Consume(seq, never, len(ref)+sim.LiveB)
		if v := diffVerdict("C06.file."+cfg.Kind, f.Name, ref, out); v != nil || cfg.Kind == "fifo" {
			return v
		}
		// the iterator VALUE File returned, ranged over a second time, reads the file again
		out = sim.Consume(seq, never, len(ref)+sim.LiveB)
		if v := diffVerdict("C06.file."+cfg.Kind, f.Name, ref, out); v != nil {
			v.Detail = "second range over the same iterator value: " + v.Detail
			return v
		}
		return nil
	case "C06.unopenable":
		cfg := *c.File
		cfg.Ext = f.Ext
		path, cleanup := Disk.Materialise(&cfg, c.Input)
		defer func() { cleanup() }()
		out := sim.Consume(f.File(path), never, sim.LiveB)
		clause := "C06.unopenable." + cfg.Kind
		cleanup() // (for emfile: give the descriptors back before anything else happens)
		cleanup = func() {}
		if out.Panic != "" || out.Capped != "" {
			return diffVerdict(clause, f.Name, nil, out)
		}
		bad := len(out.Items) == 0
		for _, it := range out.Items {
			if !it.Err {
				bad = true
			}
		}
		if bad {
			return &Verdict{Clause: clause, Key: clause + "/" + f.Name,
				Detail:   fmt.Sprintf("File(%q) on an unopenable path must yield an error (and only errors); got %d items", path, len(out.Items)),
				Expected: []string{"error(...)"}, Observed: fmts.Strings(out.Items)}
		}
		return nil
	}
	panic("execC06: " + c.Clause)
}

func byteClass(b byte, special string) string {
	switch {
	case b == '\r':
		return "CR"
	case b == '\n':
		return "LF"
	case strings.IndexByte(special, b) >= 0:
		return fmt.Sprintf("%q", b)
	}
	return "x"
}

// cutProbes records where the executed delivery sequence cut the input.
func cutProbes(ctx *core.Ctx, f *fmts.Format, input []byte, seq []int) {
	pairs := map[[2]byte]int64{}
	defer func() {
		keys := make([][2]byte, 0, len(pairs))
		for k := range pairs {
			keys = append(keys, k)
		}
		sort.Slice(keys, func(i, j int) bool {
			return keys[i][0] < keys[j][0] || keys[i][0] == keys[j][0] && keys[i][1] < keys[j][1]
		})
		for _, k := range keys {
			ctx.Stats.Add("cutpair/"+f.Name+"/"+byteClass(k[0], f.Special)+"|"+byteClass(k[1], f.Special), pairs[k])
		}
	}()
	norm := func(b byte) byte {
		if b == '\r' || b == '\n' || strings.IndexByte(f.Special, b) >= 0 {
			return b
		}
		return 'x'
	}
	pos := 0
	line := 0
	lineAt := func(p int) int { return bytes.Count(input[:p], []byte("\n")) }
	_ = line
	for _, n := range seq {
		if n == 0 {
			continue
		}
		if n < 0 {
			break
		}
		if n >= 1000000 {
			n -= 1000000
		}
		pos += n
		if pos <= 0 || pos >= len(input) {
			continue
		}
		a, b := input[pos-1], input[pos]
		pairs[[2]byte{norm(a), norm(b)}]++
		if a == '\r' && b == '\n' {
			ctx.Stats.Inc("probe/cut_between_cr_lf/" + f.Name)
		}
		switch f.Name {
		case "fasta":
			if (a == '\n' || a == '\r') && b == '>' {
				ctx.Stats.Inc("probe/fasta_cut_before_line_initial_gt")
			}
		case "newick":
			if a == '\'' && b == '\'' {
				ctx.Stats.Inc("probe/newick_cut_between_two_quotes")
			}
			if len(input) <= 4096 && bytes.Count(input[:pos], []byte("'"))%2 == 1 {
				ctx.Stats.Inc("probe/newick_cut_inside_quoted_name")
			}
		case "sam", "samh":
			if len(input) <= 4096 {
				ls := bytes.LastIndexByte(input[:pos], '\n') + 1
				if bytes.Count(input[ls:pos], []byte("\t")) >= 11 && a != '\t' && b != '\t' && b != '\n' {
					ctx.Stats.Inc("probe/sam_cut_inside_tag")
				}
			}
		case "fastq":
			if len(input) <= 4096 && lineAt(pos)%4 == 3 && a != '\n' {
				ctx.Stats.Inc("probe/fastq_cut_inside_4th_line")
			}
		}
	}
}

// runC06Giant: a file of tens of MiB (its .gz form beyond 8 MiB), where size-driven
// strategies (bigger buffers, read-ahead helpers, mmap-like paths) switch on. Only
// File plain / .gz against the one-shot decode; item sequences are compared by hash.
func runC06Giant(ctx *core.Ctx, r *core.Rng) {
	f := core.Pick(r, []*fmts.Format{fmts.Fasta, fmts.Fastq})
	const alpha = "ABCDEFGHIJKLMNOPQRSTUVWXYZabcdefghijklmnopqrstuvwxyz0123456789" // about 6 bits per byte: stays large when compressed
	var b bytes.Buffer
	total := r.Range(11<<20, 14<<20)
	for i := 0; b.Len() < total; i++ {
		l := r.Range(20000, 60000)
		if f == fmts.Fasta {
			fmt.Fprintf(&b, ">r%d\n", i)
			b.Write(r.Bytes(l, alpha))
			b.WriteString("\n")
		} else {
			fmt.Fprintf(&b, "@r%d\n", i)
			b.Write(r.Bytes(l, alpha))
			b.WriteString("\n+\n")
			b.Write(r.Bytes(l, alpha))
			b.WriteString("\n")
		}
	}
	input := b.Bytes()
	ref, ok := refOf(f, input)
	ctx.Eval()
	if !ok {
		return
	}
	ctx.Stats.Inc("probe/giant_file_over_8MiB_also_when_compressed")
	ctx.EvU(uint64(len(input)), uint64(len(ref)))
	for _, cfg := range []sim.FileCfg{{Kind: "plain"}, {Kind: "gz", Level: 1}} {
		cfg := cfg
		c := &Case{Clause: "C06.file", Format: f.Name, Input: input, File: &cfg}
		v := execC06Ref(c, ref, true)
		ctx.Eval()
		ctx.Seen(core.HashBytes(input[:4096]) ^ core.HashString("giant/"+cfg.Kind))
		if v != nil {
			ctx.EvS(v.Key)
			report(ctx, c, v)
		}
	}
}

// oddNames are base names with a conventional meaning elsewhere or awkward bytes.
var oddNames = []string{"-", "-", "~", "--help", "a b", "x.gz", "x.gz.y", "\u00fcn\u00ef", "con", ".hidden", "a:b", "%41"}

// RunC06 is one simulated run.
func RunC06(ctx *core.Ctx, r *core.Rng) {
	Noise(ctx, r)
	f := core.Pick(r, fmts.All)
	// swarm configuration
	var sz fmts.Size
	switch x := r.Intn(100); {
	case x < 22:
		sz = fmts.Tiny
	case x < 65:
		sz = fmts.Small
	case x < 80:
		sz = fmts.Multi
	case x < 96 || (ctx.Tier != "thorough" && x < 99):
		sz = fmts.Medium
	default:
		sz = fmts.Large // 1% of quick runs, 4% of thorough runs: an execution costs up to a second
	}
	if ctx.Tier == "thorough" && r.Chance(0.002) {
		sz = fmts.Huge
	}
	kind := "wellformed"
	switch x := r.Intn(100); {
	case x < 45:
	case x < 80:
		kind = "mutated"
	default:
		kind = "random"
	}
	doc := f.Gen(r, sz)
	if r.Chance(0.00025) {
		runC06Giant(ctx, r)
	}
	if r.Chance(0.012) { // a line within 3 bytes of 64 KiB, in an otherwise tiny document
		doc, sz, kind = fmts.Boundary64K(r, f), fmts.Large, "wellformed"
		ctx.Stats.Inc("probe/line_within_3_bytes_of_64KiB")
	}
	term := "\n"
	if r.Chance(0.3) {
		term = "\r\n"
	}
	input := doc.Render(term)
	switch kind {
	case "mutated":
		input = fmts.Mutate(r, f, input)
	case "random":
		n := len(input)
		if sz == fmts.Tiny {
			n = r.Range(0, 14)
		}
		input = fmts.RandomBytes(r, f, n)
	}
	if r.Chance(0.04) { // leading junk real files carry: byte order marks, gzip magic in a plain file, NUL
		input = append([]byte(core.Pick(r, []string{"\xef\xbb\xbf", "\xff\xfe", "\x1f\x8b", "\x1f\x8b\x08\x00", "\x00", "BZh9", "\x28\xb5\x2f\xfd"})), input...)
		if kind == "wellformed" {
			kind = "mutated"
		}
		ctx.Stats.Inc("probe/input_with_leading_magic_bytes")
	}
	if sz == fmts.Tiny && len(input) > 14 {
		input = input[:14]
		kind = "mutated"
	}
	ctx.EvS("C06 " + f.Name + " " + sz.String() + " " + kind)
	ctx.EvB(input)
	ref, ok := refOf(f, input)
	ctx.Eval()
	if !ok {
		ctx.Stats.Inc("skipped_reference_panics/" + f.Name)
		return
	}
	ctx.Stats.Inc("inputs/" + f.Name + "/" + sz.String() + "/" + kind)
	if hasErr(ref) {
		ctx.Stats.Inc("inputs_with_error_items/" + f.Name)
		for _, it := range ref {
			if it.Err && strings.Contains(it.ErrText, "token too long") {
				ctx.Stats.Inc("probe/scanner_token_too_long/" + f.Name)
				break
			}
		}
	}
	if len(input) > 4096 {
		ctx.Stats.Inc("probe/input_crosses_bufio_buffer/" + f.Name)
	}
	inHash := core.HashBytes(input) ^ core.HashString(f.Name)
	runSched := func(plan sim.Plan, probe bool, tag string) {
		c := &Case{Clause: "C06.schedule", Format: f.Name, Input: input, Plan: &plan}
		st := sim.NewStream(input, plan)
		st.KeepSeq = probe && len(input) <= 8192 // where the cuts fell is only analysed for inputs up to 8 KiB
		out := sim.Consume(f.Reader(st), sim.ConsumerPlan{Style: sim.Direct, StopAt: -1}, len(ref)+sim.LiveB)
		ctx.Eval()
		v := diffVerdict("C06.schedule", f.Name, ref, out)
		if probe {
			ctx.Seen(inHash ^ st.SeqHash)
			if st.KeepSeq {
				cutProbes(ctx, f, input, st.Seq)
			}
			ctx.EvU(st.SeqHash, uint64(len(out.Items)))
		}
		if st.EOFData {
			ctx.Stats.Inc("fault_fired/eof_with_data")
		}
		if st.Stalls > 0 {
			ctx.Stats.Add("fault_fired/stall", int64(st.Stalls))
		}
		ctx.Stats.Inc("fault_fired/short_reads_plan_" + tag)
		if v != nil {
			ctx.EvS(v.Key)
			report(ctx, c, v)
		} else if len(out.Items) == len(ref) {
			for i := range ref {
				if ref[i].Err && out.Items[i].ErrText != ref[i].ErrText {
					ctx.Stats.Inc("probe/error_text_differs")
					break
				}
			}
		}
	}

	// Clause 1a: small-scope exhaustive components.
	n := len(input)
	if n >= 1 && n <= 14 {
		for mask := 0; mask < 1<<(n-1); mask++ {
			var chunks []int
			last := 0
			for i := 1; i < n; i++ {
				if mask&(1<<(i-1)) != 0 {
					chunks = append(chunks, i-last)
					last = i
				}
			}
			chunks = append(chunks, n-last)
			for e := 0; e < 2; e++ {
				runSched(sim.Plan{Chunks: chunks, EOFWithData: e == 1}, false, "exhaustive_partition")
			}
		}
		ctx.Stats.Inc("exhaustive/inputs_with_all_partitions")
		ctx.Stats.Add("exhaustive/partitions_x_eof_placements", int64(2<<(n-1)))
		ctx.Seen(inHash ^ 0xe)
		ctx.EvU(uint64(n))
	}
	if n >= 2 && n <= 400 {
		for i := 1; i < n; i++ {
			runSched(sim.Plan{Chunks: []int{i}, EOFWithData: i%2 == 0}, n > 14, "single_cut")
		}
		ctx.Stats.Inc("exhaustive/inputs_with_every_single_cut")
	}
	if n >= 3 && n <= 60 {
		for i := 1; i < n; i++ {
			for j := i + 1; j < n; j++ {
				runSched(sim.Plan{Chunks: []int{i, j - i}}, false, "pair_of_cuts")
			}
		}
		ctx.Stats.Inc("exhaustive/inputs_with_every_pair_of_cuts")
	}
	// Clause 1b: sampled plans.
	np := 8
	if sz >= fmts.Medium {
		np = 5
	}
	for i := 0; i < np; i++ {
		style := planStyles[(i+ctx.Run())%len(planStyles)]
		if i >= len(planStyles) {
			style = core.Pick(r, planStyles)
		}
		if len(input) > 50000 && (style == "one" || style == "uniform") && !(ctx.Tier == "thorough" && r.Chance(0.2) && sz != fmts.Huge) {
			style = "bigbuf" // hundreds of thousands of tiny reads per execution: thorough tier only, and rarely
		}
		runSched(genPlan(r, style, input, f.Special), true, style)
	}

	// Clause 2: LF == CRLF on well-formed input.
	if kind == "wellformed" {
		lf := doc.Render("\n")
		lref, ok := refOf(f, lf)
		ctx.Eval()
		if ok && !hasErr(lref) {
			crlf := toCRLF(lf)
			for i := 0; i < 3; i++ {
				plan := sim.Plan{}
				if i > 0 {
					style := core.Pick(r, []string{"hunter", "uniform", "one"})
					if len(crlf) > 50000 {
						style = core.Pick(r, []string{"hunter", "bigbuf", "geometric"})
					}
					plan = genPlan(r, style, crlf, f.Special)
				}
				c := &Case{Clause: "C06.crlf", Format: f.Name, Input: lf, Plan: &plan}
				st := sim.NewStream(crlf, plan)
				st.KeepSeq = len(crlf) <= 8192
				out := sim.Consume(f.Reader(st), sim.ConsumerPlan{Style: sim.Direct, StopAt: -1}, len(lref)+sim.LiveB)
				ctx.Eval()
				if st.KeepSeq {
					cutProbes(ctx, f, crlf, st.Seq)
				}
				ctx.Seen(inHash ^ st.SeqHash ^ 0xc)
				ctx.Stats.Inc("crlf_cases/" + f.Name)
				if v := diffVerdict("C06.crlf", f.Name, lref, out); v != nil {
					ctx.EvS(v.Key)
					report(ctx, c, v)
				}
			}
		} else {
			ctx.Stats.Inc("skipped_reference_not_clean/" + f.Name)
		}
	}

	// Clause 3: File == Reader, plain and .gz.
	if sz != fmts.Large || r.Chance(0.5) {
		cfgs := []sim.FileCfg{{Kind: "plain"}, {Kind: "gz", Level: core.Pick(r, []int{0, 1, 6, 9})}}
		if r.Chance(0.06) && len(input) < 60000 {
			cfgs = append(cfgs, sim.FileCfg{Kind: "fifo"}) // a named pipe: size 0, not seekable
		}
		if r.Chance(0.35) {
			cfgs = append(cfgs, sim.FileCfg{Kind: "gz2", Level: core.Pick(r, []int{0, 1, 6, 9}), Split: r.Range(0, len(input))})
		}
		odd := ""
		if r.Chance(0.12) { // file names with a conventional or awkward meaning
			odd = core.Pick(r, oddNames)
			ctx.Stats.Inc("probe/unusual_file_name")
		}
		via := ""
		if r.Chance(0.15) { // the same file reached by another spelling of its path
			via = core.Pick(r, []string{"dot", "abs", "dotdot", "symlink", "symlink"})
			ctx.Stats.Inc("probe/path_spelled_" + via)
		}
		for _, cfg := range cfgs {
			cfg := cfg
			cfg.Odd = odd
			if cfg.Kind != "fifo" && !(odd == "-" || odd == "~") {
				cfg.Via = via
			}
			if odd == "-" && cfg.Kind != "plain" {
				cfg.Odd = "-x" // "-" itself cannot carry the .gz suffix
			}
			c := &Case{Clause: "C06.file", Format: f.Name, Input: input, File: &cfg}
			v := execC06Ref(c, ref, true)
			ctx.Eval()
			ctx.Stats.Inc("config/" + f.Name + "/file_" + cfg.Kind)
			ctx.EvS("file " + cfg.Kind + " " + cfg.Odd + " " + cfg.Via)
			ctx.Seen(inHash ^ core.HashString("file/"+cfg.Kind))
			if cfg.Kind == "gz2" {
				ctx.Stats.Inc("probe/gzip_multi_member")
			}
			if v != nil {
				ctx.EvS(v.Key)
				report(ctx, c, v)
			}
		}
	}
	ctx.Stats.Inc("config/" + f.Name + "/reader_on_memory")

	// Clause 5: two decodes interleaved.
	if r.Chance(0.12) && len(input) < 20000 {
		doc2 := f.Gen(r, core.Pick(r, []fmts.Size{fmts.Small, fmts.Multi}))
		plan := genPlan(r, core.Pick(r, planStyles), input, f.Special)
		c := &Case{Clause: "C06.interleaved", Format: f.Name, Input: input, Input2: doc2.Render("\n"), Plan: &plan}
		v := execC06Ref(c, ref, true)
		ctx.EvalN(2)
		ctx.Stats.Inc("fault_fired/two_decodes_alive_at_the_same_time")
		if v != nil {
			ctx.EvS(v.Key)
			report(ctx, c, v)
		}
	}

	// Clause 4: unopenable paths.
	if r.Chance(0.15) {
		for _, k := range []string{"missing", "missing-parent", "through-file", "missing", "emfile", "dangling-symlink"} {
			cfg := sim.FileCfg{Kind: k}
			if k == "missing" && r.Chance(0.5) {
				cfg.Odd = core.Pick(r, oddNames) // e.g. "-": no such file, so an error, not standard input
			}
			c := &Case{Clause: "C06.unopenable", Format: f.Name, File: &cfg}
			if k == "emfile" {
				c.Input = input
			}
			v := execC06Ref(c, nil, true)
			ctx.Eval()
			ctx.Stats.Inc("fault_fired/unopenable_" + k)
			if v != nil {
				ctx.EvS(v.Key)
				report(ctx, c, v)
			}
		}
	}
	if ctx.Run() < 64 {
		ctx.Sample(map[string]any{"format": f.Name, "size": sz.String(), "kind": kind, "input": fmt.Sprintf("%q", trunc(input, 160)),
			"input_len": len(input), "reference_items": clip(fmts.Strings(ref), 4)})
	}
}
