package props

import (
	"sort"

	"verif/core"
)

// KeyOrder is the simulator's plan for the one choice trie.ForEach leaves to
// the Go runtime: the order in which a node's children are walked.
type KeyOrder struct {
	Mode string `json:"mode"` // runtime | sorted | reversed | perm (a fresh permutation at every call)
	Seed uint64 `json:"seed,omitempty"`
}

var (
	curKeyOrder   *KeyOrder
	keyOrderCalls uint64
	keyOrderTotal uint64
	// HookCompiled says whether the verif-tagged hook is part of this binary.
	HookCompiled bool
)

func setKeyOrder(ko *KeyOrder) {
	curKeyOrder = ko
	keyOrderCalls = 0
}

// applyKeyOrder is installed as trie.SimKeyOrder.
func applyKeyOrder(k []byte) {
	keyOrderCalls++
	keyOrderTotal++
	ko := curKeyOrder
	if ko == nil || ko.Mode == "" || ko.Mode == "runtime" {
		return
	}
	sort.Slice(k, func(i, j int) bool { return k[i] < k[j] })
	switch ko.Mode {
	case "reversed":
		for i, j := 0, len(k)-1; i < j; i, j = i+1, j-1 {
			k[i], k[j] = k[j], k[i]
		}
	case "perm":
		s := core.SplitMix64(ko.Seed ^ keyOrderCalls*0x9e3779b97f4a7c15)
		for i := len(k) - 1; i > 0; i-- {
			s = core.SplitMix64(s)
			j := int(s % uint64(i+1))
			k[i], k[j] = k[j], k[i]
		}
	}
}

func genKeyOrder(r *core.Rng) *KeyOrder {
	return &KeyOrder{Mode: core.Pick(r, []string{"sorted", "reversed", "perm", "perm"}), Seed: r.Uint64() >> 12}
}
