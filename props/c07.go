package props

import (
	"bytes"
	"fmt"
	"io"
	"sort"

	"verif/core"
	"verif/fmts"
	"verif/sim"
)

// C07 — a failing stream is reported, never mistaken for a clean end of data.
//
// Clauses (Verdict.Clause):
//   C07.read.prefix          a non-error item is not the next leading record of the fault-free decode
//   C07.read.noerror         the iteration ended without any error item although the stream failed
//   C07.read.nontermination  step cap hit (reads or items after the fault)
//   C07.read.panic
//   C07.file.*               the same through File on a directory / truncated .gz
//   C07.write.nil-after-error  the sink failed, what it accepted differs from the full output, Write returned nil
//   C07.write.error-when-accepted  the sink never failed but Write returned an error
//   C07.write.panic

func execC07(c *Case) *Verdict {
	switch c.Clause {
	case "C07.read":
		return execC07Read(c, nil)
	case "C07.file":
		return execC07File(c, nil)
	case "C07.write":
		return execC07Write(c, nil)
	}
	panic("execC07: " + c.Clause)
}

// checkFaulty applies the read-side oracle to the outcome of a faulty run.
func checkFaulty(prefix string, key string, ref []fmts.Item, out sim.Outcome[fmts.Item], faultFired bool) *Verdict {
	if out.Panic != "" {
		return &Verdict{Clause: prefix + ".panic", Key: prefix + ".panic/" + key, Detail: "panic: " + out.Panic,
			Observed: fmts.Strings(out.Items)}
	}
	if out.Capped != "" {
		return &Verdict{Clause: prefix + ".nontermination", Key: prefix + ".nontermination/" + key,
			Detail:   fmt.Sprintf("iteration did not end: step cap %q (B=%d further reads/items after the fault)", out.Capped, sim.LiveB),
			Expected: fmts.Strings(ref), Observed: fmts.Strings(out.Items)}
	}
	m := 0
	nerr := 0
	for i, it := range out.Items {
		if it.Err {
			nerr++
			continue
		}
		if m < len(ref) && it.Key() == ref[m].Key() {
			m++
			continue
		}
		return &Verdict{Clause: prefix + ".prefix", Key: prefix + ".prefix/" + key,
			Detail:   fmt.Sprintf("item %d is not leading record %d of the fault-free decode", i, m),
			Expected: fmts.Strings(ref), Observed: fmts.Strings(out.Items)}
	}
	if nerr == 0 && faultFired {
		return &Verdict{Clause: prefix + ".noerror", Key: prefix + ".noerror/" + key,
			Detail:   fmt.Sprintf("the stream failed but the iteration ended with %d records and no error", m),
			Expected: append(fmts.Strings(ref[:m]), "error(...)"), Observed: fmts.Strings(out.Items)}
	}
	return nil
}

// execC07Read runs one read-side fault case. ref may be precomputed.
func execC07Read(c *Case, ref []fmts.Item) *Verdict {
	f := fmts.ByName(c.Format)
	if ref == nil {
		o := oneShot(f, c.Input)
		if o.Panic != "" || o.Capped != "" || hasErr(o.Items) {
			return nil // not well-formed for this oracle: skipped (C01-C05/C11 territory)
		}
		ref = o.Items
	}
	st := sim.NewStream(c.Input, *c.Plan)
	out := sim.Consume(f.Reader(st), sim.ConsumerPlan{Style: sim.Direct, StopAt: -1}, len(ref)+sim.LiveB)
	return checkFaulty("C07.read", f.Name, ref, out, st.FaultFired)
}

// execC07File runs one real-file fault case (directory, truncated .gz).
func execC07File(c *Case, ref []fmts.Item) *Verdict {
	f := fmts.ByName(c.Format)
	if ref == nil {
		o := oneShot(f, c.Input)
		if o.Panic != "" || o.Capped != "" || hasErr(o.Items) {
			return nil
		}
		ref = o.Items
	}
	cfg := *c.File
	cfg.Ext = f.Ext
	if cfg.Kind == "dir" {
		ref = nil // a directory delivers no bytes at all
	}
	path, cleanup := Disk.Materialise(&cfg, c.Input)
	defer cleanup()
	if cfg.Kind == "gztrunc" && cfg.Cut > cfg.GzBytes-9 {
		return nil // inside the trailer: a clean end is legitimate there (DESIGN §4.2)
	}
	out := sim.Consume(f.File(path), sim.ConsumerPlan{Style: sim.Direct, StopAt: -1}, len(ref)+sim.LiveB)
	return checkFaulty("C07.file."+cfg.Kind, f.Name, ref, out, true)
}

// execC07Write runs one write-side case. full may be precomputed (the output
// into an unlimited sink).
func execC07Write(c *Case, full []byte) (v *Verdict) {
	key := c.Rec.Format()
	defer func() {
		if r := recover(); r != nil {
			v = &Verdict{Clause: "C07.write.panic", Key: "C07.write.panic/" + key, Detail: fmt.Sprint("panic: ", r)}
		}
	}()
	if full == nil {
		un := &sim.Sink{Plan: sim.SinkPlan{K: -1}}
		if err := c.Rec.Write(un); err != nil {
			return &Verdict{Clause: "C07.write.error-when-accepted", Key: "C07.write.error-when-accepted/" + key,
				Detail: fmt.Sprintf("the sink accepted everything but Write returned %v", err)}
		}
		full = un.Accepted
	}
	if c.Sink == nil {
		return nil
	}
	s := &sim.Sink{Plan: *c.Sink}
	var dst io.Writer = s
	if c.Sink.Rich {
		dst = sim.RichSink{Sink: s}
	}
	err := c.Rec.Write(dst)
	if s.Errors > 0 && !bytes.Equal(s.Accepted, full) && err == nil {
		return &Verdict{Clause: "C07.write.nil-after-error", Key: "C07.write.nil-after-error/" + key,
			Detail:   fmt.Sprintf("the sink failed %d time(s) and holds %d of %d bytes, but Write returned nil", s.Errors, len(s.Accepted), len(full)),
			Expected: []string{fmt.Sprintf("%q", full)}, Observed: []string{fmt.Sprintf("%q", s.Accepted)}}
	}
	if s.Errors == 0 && err != nil {
		return &Verdict{Clause: "C07.write.error-when-accepted", Key: "C07.write.error-when-accepted/" + key,
			Detail: fmt.Sprintf("the sink accepted everything but Write returned %v", err)}
	}
	return nil
}

// classify the syntactic position of a fault offset (reach probe).
func posClass(w []byte, k int) string {
	switch {
	case k == 0:
		return "at_0"
	case k == len(w):
		return "at_len"
	case w[k-1] == '\r' && w[k] == '\n':
		return "between_cr_lf"
	case w[k-1] == '\n':
		return "on_line_boundary"
	case w[k] == '\n' || w[k] == '\r':
		return "before_terminator"
	}
	if bytes.IndexByte(w[k:], '\n') < 0 {
		return "in_last_unterminated_line"
	}
	return "inside_line"
}

// RunC07 is one simulated run.
func RunC07(ctx *core.Ctx, r *core.Rng) {
	Noise(ctx, r)
	mode := r.Intn(100)
	switch {
	case mode < 62:
		runC07Read(ctx, r)
	case mode < 85:
		runC07Write(ctx, r)
	default:
		runC07File(ctx, r)
	}
}

func wellFormed(ctx *core.Ctx, r *core.Rng, f *fmts.Format, sz fmts.Size) ([]byte, []fmts.Item, bool) {
	doc := f.Gen(r, sz)
	term := "\n"
	if r.Chance(0.3) {
		term = "\r\n"
	}
	w := doc.Render(term)
	o := oneShot(f, w)
	ctx.Eval()
	if o.Panic != "" || o.Capped != "" || hasErr(o.Items) {
		ctx.Stats.Inc("skipped_reference_not_clean/" + f.Name)
		ctx.EvS("skip-ref")
		return w, nil, false
	}
	return w, o.Items, true
}

func runC07Read(ctx *core.Ctx, r *core.Rng) {
	f := core.Pick(r, fmts.All)
	sz := fmts.Small
	switch x := r.Intn(100); {
	case x < 8:
		sz = fmts.Tiny
	case x < 11:
		sz = fmts.Medium
	case x < 40:
		sz = fmts.Multi
	case x < 41 && ctx.Tier == "thorough" && r.Chance(0.5):
		sz = fmts.Large // offsets sampled, never enumerated
	}
	if r.Chance(0.0006) || ctx.Tier == "thorough" && r.Chance(0.001) {
		sz = fmts.Huge // a line beyond 1 MiB; offsets sampled
	}
	w, ref, ok := wellFormed(ctx, r, f, sz)
	ctx.EvS("C07.read " + f.Name)
	ctx.EvB(w)
	if !ok {
		return
	}
	// Offsets: every one for tiny/small; for medium every one in thorough, stratified in quick.
	var offs []int
	if sz == fmts.Large || sz == fmts.Huge {
		mark := map[int]bool{0: true, len(w): true}
		for _, b := range []int{4096, 8192, 65536, 131072, 1 << 20, 1<<20 + 4096} {
			for d := -2; d <= 2; d++ {
				if b+d >= 0 && b+d <= len(w) {
					mark[b+d] = true
				}
			}
		}
		nrand := 60
		if sz == fmts.Huge {
			nrand = 25
		}
		for i := 0; i < nrand; i++ {
			k := r.Intn(len(w) + 1)
			mark[k] = true
			if nl := bytes.IndexByte(w[k:], '\n'); nl >= 0 { // and the next line boundary
				mark[k+nl] = true
				mark[k+nl+1] = true
			}
		}
		for k := range mark {
			offs = append(offs, k)
		}
		sort.Ints(offs)
		ctx.Stats.Inc("c07_inputs_large_offsets_sampled")
	} else if sz != fmts.Medium || (ctx.Tier == "thorough" && r.Chance(0.25)) {
		for k := 0; k <= len(w); k++ {
			offs = append(offs, k)
		}
		ctx.Stats.Inc("c07_inputs_all_offsets_enumerated")
	} else {
		mark := make([]bool, len(w)+1)
		for k := 0; k <= len(w); k++ {
			near := k%4096 <= 3 || k%4096 >= 4093
			for d := -3; d <= 3 && !near; d++ {
				if k+d >= 0 && k+d < len(w) && w[k+d] == '\n' {
					near = true
				}
			}
			if near {
				mark[k] = true
			}
		}
		for i := 0; i < 200; i++ {
			mark[r.Intn(len(w)+1)] = true
		}
		mark[0], mark[len(w)] = true, true
		for k, m := range mark {
			if m {
				offs = append(offs, k)
			}
		}
		limit := 350 // quick tier; every offset of a medium input costs a 4-10 KiB decode, four times
		if ctx.Tier == "thorough" {
			limit = 1000
		}
		if len(offs) > limit { // thin the stratum out, keep both ends
			keep := []int{0}
			for _, i := range r.Perm(len(offs) - 2)[:limit-2] {
				keep = append(keep, offs[i+1])
			}
			offs = append(keep, len(w))
			sort.Ints(offs)
		}
		ctx.Stats.Inc("c07_inputs_offsets_stratified")
	}
	// Three delivery plans for the bytes before the fault; one is picked per execution.
	style := core.Pick(r, planStyles)
	plans := []sim.Plan{{Tail: 0}, {Tail: 1}, genPlan(r, style, w, f.Special)}
	if len(w) > 50000 {
		// tiny reads make bufio.Scanner rescan its whole buffer per read: quadratic on long lines
		if style == "one" || style == "uniform" {
			style = "bigbuf"
		}
		plans = []sim.Plan{{Tail: 0}, {Tail: 4096}, genPlan(r, style, w, f.Special)}
	}
	ctx.Seen(core.HashBytes(w) ^ core.HashString(f.Name+"/read/"+style))
	ctx.Stats.Inc("c07_read_inputs/" + f.Name)
	sampled := false
	for _, k := range offs {
		pc := posClass(w, k)
		for b := 0; b < 4; b++ {
			fault := &sim.Fault{Offset: k, Forever: b&1 == 1, WithData: b&2 == 2, Kind: sim.FaultKinds[r.Intn(len(sim.FaultKinds))]}
			if fault.WithData && k == 0 {
				continue
			}
			pl := plans[r.Intn(len(plans))]
			pl.Fault = fault
			c := &Case{Clause: "C07.read", Format: f.Name, Input: w, Plan: &pl}
			st := sim.NewStream(w, pl)
			out := sim.Consume(f.Reader(st), sim.ConsumerPlan{Style: sim.Direct, StopAt: -1}, len(ref)+sim.LiveB)
			ctx.Eval()
			v := checkFaulty("C07.read", f.Name, ref, out, st.FaultFired)
			ctx.EvU(uint64(k), uint64(b), uint64(len(out.Items)), uint64(st.Reads))
			if st.FaultFired {
				kind := fault.Kind
				if kind == "" {
					kind = "plain"
				}
				ctx.Stats.Inc("fault_fired/read_error_value_" + kind)
				ctx.Stats.Inc("fault_fired/read_" + []string{"once", "forever"}[b&1] + []string{"_alone", "_with_data"}[b>>1])
				ctx.Stats.Inc("fault_pos/" + f.Name + "/" + pc)
			} else {
				ctx.Stats.Inc("fault_not_reached")
			}
			nrec := 0
			for _, it := range out.Items {
				if !it.Err {
					nrec++
				}
			}
			switch {
			case nrec == 0:
				ctx.Stats.Inc("records_before_error/none")
			case nrec == len(ref):
				ctx.Stats.Inc("records_before_error/all")
			default:
				ctx.Stats.Inc("records_before_error/some")
			}
			if v != nil {
				ctx.EvS(v.Key)
				report(ctx, c, v)
			}
			if !sampled && k == len(w)/2 && ctx.Run() < 64 {
				sampled = true
				ctx.Sample(map[string]any{"clause": "C07.read", "format": f.Name, "input": fmt.Sprintf("%q", trunc(w, 120)),
					"fault": fault, "plan_style": style, "items_observed": clip(fmts.Strings(out.Items), 6)})
			}
		}
	}
	ctx.Stats.Add("c07_read_offsets_enumerated", int64(len(offs)))
}

func runC07Write(ctx *core.Ctx, r *core.Rng) {
	format := core.Pick(r, []string{"fasta", "fastq", "sam", "bed", "newick"})
	rec := genRec(r, format, ctx.Tier == "thorough")
	ctx.EvS("C07.write " + format)
	ctx.EvU(uint64(rec.size()))
	base := &Case{Clause: "C07.write", Rec: rec}
	un := &sim.Sink{Plan: sim.SinkPlan{K: -1}}
	var err error
	var pan any
	func() {
		defer func() { pan = recover() }()
		err = rec.Write(un)
	}()
	ctx.Eval()
	if pan != nil || err != nil {
		if v := execC07Write(base, nil); v != nil {
			report(ctx, base, v)
		}
		return
	}
	full := un.Accepted
	ctx.Seen(core.HashBytes(full) ^ core.HashString(format+"/write"))
	ctx.Stats.Inc("c07_write_records/" + format)
	ctx.Stats.Add("c07_write_calls_per_record_total/"+format, int64(un.Calls))
	// every offset; for outputs beyond 3000 bytes a stratified sample (all offsets near
	// 4 KiB multiples, the first and last 300, 600 random ones)
	offs := make([]int, 0, len(full))
	if len(full) <= 3000 {
		for k := 0; k < len(full); k++ {
			offs = append(offs, k)
		}
	} else {
		mark := map[int]bool{}
		for k := 0; k < len(full); k++ {
			if k < 300 || k >= len(full)-300 || k%4096 <= 2 || k%4096 >= 4094 {
				mark[k] = true
			}
		}
		for i := 0; i < 600; i++ {
			mark[r.Intn(len(full))] = true
		}
		for k := range mark {
			offs = append(offs, k)
		}
		sort.Ints(offs)
		ctx.Stats.Inc("c07_write_records_offsets_sampled")
	}
	if len(full) > 4096 {
		ctx.Stats.Inc("probe/write_output_beyond_4KiB/" + format)
	}
	rich := r.Chance(0.4)
	if rich {
		ctx.Stats.Inc("probe/write_destination_also_ByteWriter_StringWriter")
	}
	for _, k := range offs {
		for b := 0; b < 4; b++ {
			sp := &sim.SinkPlan{K: k, Sticky: b&1 == 1, Partial: b&2 == 2, Rich: rich}
			c := &Case{Clause: "C07.write", Rec: rec, Sink: sp}
			v := execC07Write(c, full)
			ctx.Eval()
			ctx.Stats.Inc("fault_fired/write_" + []string{"transient", "sticky"}[b&1] + []string{"_nothing_accepted", "_partial"}[b>>1])
			if v != nil {
				ctx.EvS(v.Key)
				report(ctx, c, v)
			}
		}
	}
	ctx.EvU(uint64(len(full)))
	ctx.Stats.Add("c07_write_offsets_enumerated", int64(len(offs)))
	if ctx.Run() < 64 {
		ctx.Sample(map[string]any{"clause": "C07.write", "record": string(trunc([]byte(rec.String()), 300)), "output_bytes": len(full),
			"offsets": fmt.Sprintf("0..%d x {sticky,transient} x {partial,nothing}", len(full)-1)})
	}
}

func runC07File(ctx *core.Ctx, r *core.Rng) {
	f := core.Pick(r, fmts.All)
	fsz := core.Pick(r, []fmts.Size{fmts.Small, fmts.Multi})
	if r.Chance(0.04) {
		fsz = fmts.Medium // several deflate blocks' worth; cuts are strided
	}
	w, ref, ok := wellFormed(ctx, r, f, fsz)
	ctx.EvS("C07.file " + f.Name)
	ctx.EvB(w)
	if !ok {
		return
	}
	ctx.Seen(core.HashBytes(w) ^ core.HashString(f.Name+"/file"))
	// (i) a directory in place of the file
	{
		c := &Case{Clause: "C07.file", Format: f.Name, Input: w, File: &sim.FileCfg{Kind: "dir"}}
		v := execC07File(c, ref)
		ctx.Eval()
		ctx.Stats.Inc("fault_fired/file_is_directory")
		if v != nil {
			ctx.EvS(v.Key)
			report(ctx, c, v)
		}
	}
	// (ii) the .gz file torn at every offset strictly before the 8-byte trailer
	level := core.Pick(r, []int{0, 1, 6, 9})
	z := sim.Gzip(w, level)
	step := 1
	if ctx.Tier != "thorough" && len(z) > 120 {
		step = 1 + len(z)/120
	}
	start := r.Intn(step)
	for cut := start; cut <= len(z)-9; cut += step {
		c := &Case{Clause: "C07.file", Format: f.Name, Input: w, File: &sim.FileCfg{Kind: "gztrunc", Level: level, Cut: cut}}
		v := execC07File(c, ref)
		ctx.Eval()
		if cut < 10 {
			ctx.Stats.Inc("fault_fired/gz_torn_in_header")
		} else {
			ctx.Stats.Inc("fault_fired/gz_torn_in_body")
		}
		ctx.EvU(uint64(cut))
		if v != nil {
			ctx.EvS(v.Key)
			report(ctx, c, v)
		}
	}
	if ctx.Run() < 64 {
		ctx.Sample(map[string]any{"clause": "C07.file", "format": f.Name, "input": fmt.Sprintf("%q", trunc(w, 120)),
			"gz_level": level, "gz_len": len(z), "cuts": fmt.Sprintf("%d..%d step %d, plus directory-as-path", start, len(z)-9, step)})
	}
}
