package props

import "verif/core"

// Meta describes a claimed property to the driver.
type Meta struct {
	Level       string
	Rule        string
	Assumptions []string
	Components  map[string]any
	Runs        map[string]int // runs per tier (a fixed count, not a time budget)
	Run         func(ctx *core.Ctx, r *core.Rng)
	Setup       func(ctx *core.Ctx) error
}

var realCommon = []string{"biostuff formats/* (the package under test, built from /repo's working tree with -tags verif)",
	"gostuff/aio.Open incl. compress/gzip", "bufio / encoding/csv", "Go range-over-func and iter.Pull machinery"}

// Metas lists the claimed properties.
var Metas = map[string]*Meta{
	"C06": {
		Level: "exploration",
		Rule: "A run draws a format, a size class (tiny<=14 B, small, medium 4-10 KiB, large 70-200 KiB), an input kind (generated well-formed text, mutated, raw noise over the format's delimiters) and compares, against the one-shot in-memory decode: " +
			"every partition of inputs <= 14 bytes x both EOF placements, every single cut (<= 400 B), every pair of cuts (<= 60 B), 5-8 sampled delivery plans (1-byte, uniform, geometric, delimiter-hunting, buffer-boundary, whole; stalls; EOF with data); the CRLF rendering of well-formed text under three plans; File on plain/.gz/multi-member .gz copies; unopenable paths. " +
			"distinct_nontrivial counts distinct (format, input, delivery sequence actually executed | storage configuration) triples for sampled plans and single cuts (exhaustively enumerated partitions and pairs are counted separately under probes.exhaustive/*; a case is non-trivial iff the reference decode did not panic).",
		Assumptions: []string{
			"the one-shot decode through bytes.Reader is the reference; the check is differential and never asserts what the right decode is (C01-C05, C11 are not decided here)",
			"error items compare by position and non-nil-ness; a text-only difference is counted as probe error_text_differs",
			"stalls (0,nil) are limited to two consecutive ones, legal per io.Reader and far below bufio's 100-empty-read limit",
			"'well-formed' for the CRLF clause is established by the LF decode being error-free",
			"inputs are sampled; the partition dimension is enumerated completely only for inputs <= 14 bytes",
		},
		Components: map[string]any{"real": realCommon, "simulated_environment": []string{"io.Reader (sim.Stream: delivery plan)", "storage: scratch directory on the real file system with plain / .gz / two-member .gz / missing / missing parent / path through a regular file"}, "stubbed": []string{}},
		Runs:       map[string]int{"quick": 1600, "thorough": 80000},
		Run:        RunC06,
	},
	"C07": {
		Level: "fault_enumeration",
		Rule: "A run draws one case from the run PRNG: (read) a format and a generated well-formed text whose fault-free decode is verified error-free, then EVERY fault offset 0..len x {error once then EOF, error forever} x {error alone, error with the last chunk} under one of three delivery plans; " +
			"(write) a generated record, then EVERY byte offset of its output x {sticky, transient} x {partial, nothing accepted}; (file) a directory in place of the file and the .gz form torn at offsets strictly before the 8-byte trailer. " +
			"distinct_nontrivial counts distinct (format, input bytes, mode/plan style) cases whose enumeration ran (a case is non-trivial iff its reference decode was clean, so that faults were actually injected); evaluations counts executions of the code under test.",
		Assumptions: []string{
			"'well-formed' is established by the fault-free one-shot decode being error-free (inputs failing this are skipped and counted)",
			"error items are compared by position and non-nil-ness only, never by wording or type",
			"bounded liveness B=1000 further Read calls / items after the fault began stands for 'ends after finitely many items'",
			"gzip truncation only at offsets <= len-9 of a single-member file (inside the trailer a clean end may be legitimate)",
			"input dimension is sampled; fault offset dimension is enumerated completely per input (stratified for 4-10 KiB inputs in the quick tier)",
		},
		Components: map[string]any{"real": realCommon, "simulated_environment": []string{"io.Reader (sim.Stream: delivery plan + fault)", "io.Writer (sim.Sink: acceptance plan)", "consumer that keeps iterating past errors", "storage: scratch directory on the real file system (directory-as-path, torn .gz)"}, "stubbed": []string{}},
		Runs:       map[string]int{"quick": 1600, "thorough": 60000},
		Run:        RunC07,
	},
}
