package props

import "verif/core"

// Meta describes a claimed property to the driver.
type Meta struct {
	Level       string
	Rule        string
	Assumptions []string
	Components  map[string]any
	Runs        map[string]int // runs per tier (a fixed count, not a time budget)
	Run         func(ctx *core.Ctx, r *core.Rng)
	Setup       func(ctx *core.Ctx) error
}

var realCommon = []string{"biostuff formats/* (the package under test, built from /repo's working tree with -tags verif)",
	"gostuff/aio.Open incl. compress/gzip", "bufio / encoding/csv", "Go range-over-func and iter.Pull machinery"}

// Metas lists the claimed properties.
var Metas = map[string]*Meta{
	"C06": {
		Level: "exploration",
		Rule: "A run draws a format, a size class (tiny<=14 B, small, medium 4-10 KiB, large 70-200 KiB), an input kind (generated well-formed text, mutated, raw noise over the format's delimiters) and compares, against the one-shot in-memory decode: " +
			"(line lengths next to multiples of the 4096-byte bufio buffer and to 64 KiB are generated on purpose, in the thorough tier rarely a line of 1-1.5 MiB; mutations include byte order marks, NUL and bytes >= 0x80; 4% of inputs start with magic bytes of other formats; 12% of files get a name with a conventional or awkward meaning such as a single dash) every partition of inputs <= 14 bytes x both EOF placements, every single cut (<= 400 B), every pair of cuts (<= 60 B), 5-8 sampled delivery plans (1-byte, uniform, geometric, delimiter-hunting, buffer-boundary, whole; stalls; EOF with data); the CRLF rendering of well-formed text under three plans; File (every iterator value ranged twice) on plain/.gz/multi-member .gz copies, reached also through ./, absolute, sub/../ and symlink spellings, rarely on 11-14 MiB files, and on a named pipe (size 0, fed by a writer); unopenable paths, including an existing file while the process has no descriptor left; two decodes of different inputs advanced in lock-step. Every comparison is made on the items as rendered when yielded and again on the same record values rendered after the iteration ended (clause suffix .retained: records a consumer kept). " +
			"distinct_nontrivial counts distinct (format, input, delivery sequence actually executed | storage configuration) triples for sampled plans and single cuts (exhaustively enumerated partitions and pairs are counted separately under probes.exhaustive/*; a case is non-trivial iff the reference decode did not panic).",
		Assumptions: []string{
			"the one-shot decode through bytes.Reader is the reference; the check is differential and never asserts what the right decode is (C01-C05, C11 are not decided here)",
			"error items compare by position and non-nil-ness; a text-only difference is counted as probe error_text_differs",
			"stalls (0,nil) are limited to two consecutive ones, legal per io.Reader and far below bufio's 100-empty-read limit",
			"'well-formed' for the CRLF clause is established by the LF decode being error-free",
			"inputs are sampled; the partition dimension is enumerated completely only for inputs <= 14 bytes",
		},
		Components: map[string]any{"real": realCommon, "simulated_environment": []string{"io.Reader (sim.Stream: delivery plan)", "storage: scratch directory on the real file system with plain / .gz / two-member .gz / missing / missing parent / path through a regular file"}, "stubbed": []string{}},
		Runs:       map[string]int{"quick": 12000, "thorough": 1200000},
		Run:        RunC06,
		Setup:      SetupC18, // the same descriptor budget (RLIMIT_NOFILE=200): the "no descriptor left" configuration needs it
	},
	"C15": {
		Level: "exploration",
		Rule: "A run executes four seeded histories (depth <= 12 quick, <= 60 thorough) of Add / Delete / restart (MarshalJSON -> fresh trie -> UnmarshalJSON, history continues on the rebuilt object) with caller-buffer scribbling after calls, arguments passed in one reused long-lived buffer, the JSON form also taken by calling MarshalJSON directly and holding the result across later calls, the JSON form as MarshalIndent re-indents it or as a field of an enclosing document, an operation that gives one node all 256 children, a churn of up to 65537 short-lived members, ForEach nested inside the callback of another ForEach, callbacks that panic and are recovered, steps that are left unobserved, and a simulator-chosen child order for ForEach, over a swarm of alphabets (2-6 letters incl. 0x00, 0xFF, '\"') and length bounds; after EVERY step the full observation (Has for every string of the bounded universe, the ForEach multiset, Delete's result) is compared with a reference set model. The first runs are the fixed exhaustive sweep: all 14^4 = 38416 histories of depth 4 over 14 operations on {a,b} (thorough: depth 5, 537824 histories, plus all 26^4 = 456976 histories of depth 4 over {a,b,c}). " +
			"distinct_nontrivial counts distinct abstract states (sets M) reached; evaluations counts histories executed.",
		Assumptions: []string{
			"the reference model is a direct transcription of the property's definition of M (about 40 lines, no code shared with the implementation)",
			"Has is observed over the complete bounded universe when it has <= 6000 strings, otherwise over every prefix of every argument extended by every letter",
			"the trie is not safe for concurrent use and the property does not ask for it: the schedule dimension is the history with restart and aliasing points, not thread interleaving",
			"map iteration order inside ForEach is chosen by the simulator through the verif-tagged hook trie.SimKeyOrder; verdicts do not depend on the hook being reached",
		},
		Components: map[string]any{"real": []string{"biostuff trie (built from /repo's working tree with -tags verif)", "encoding/json"}, "simulated_environment": []string{"the caller: operation history, restart points, buffer reuse", "map iteration order in trie.keys() via the guarded hook"}, "stubbed": []string{}},
		Runs:       map[string]int{"quick": 100000, "thorough": 900000},
		Run:        RunC15,
	},
	"C16": {
		Level: "exploration",
		Rule: "A run builds one index from generated (starts, ends) -- 0-12 intervals incl. start==end, start>end, duplicates, touching, nested, negative and math.MinInt/MaxInt coordinates -- shared by 1-4 simulated callers with up to 8 operations each (At at breakpoints, breakpoint+-1, below min, above max, random; scribbling over a previously returned slice in three modes; re-queries), once interleaved at whole-operation granularity on the real package and twice at statement granularity on the instrumented scratch copy (real goroutines, exactly one runnable, yield before every statement; uniform / sticky / PCT-style choice from the run PRNG); every At answer is compared with a brute-force scan; for 3% of runs a small case (2-3 callers, <= 4 operations each) additionally gets EVERY schedule with exactly one pre-emption (caller a runs k points, caller b runs to completion, then the rest: all a, k, b); 6% of cases pile 17-130 intervals on the same few positions (thresholds such as 16/32/64 members). In the instrumented copy package sort is replaced by a version that yields after every element move, because a sort of shared data is not atomic in reality. In 30% of cases a second, unrelated index is built before the queries; 0.2% of operation-granular cases use 4096-21000 intervals (half with ascending starts and long containing intervals) under a GOMAXPROCS of their own, swept at 400 positions; unrelated library calls (incl. BED12 parsing) run right before 10% of the cases. In 30% of cases the argument slices have spare capacity behind them (reusable buffers, truncated slices). 3% of cases hand NewIndex unequal lengths and expect the panic. One case in seven draws all coordinates from an extent [lo, lo+q] whose width sits on an arithmetic cliff relative to the interval count n: q = W/(k*n) + {-1,0,1} for W in {2^64-1, 2^63-1, 2^32-1, 2^31-1}, k in 1..4, lo in {MinInt, 0, +-1, small, MaxInt-q} (packed sort keys, bucket indices and mid-point sums are right on one side of such a width and overflow on the other). " +
			"The first 17 runs are the fixed exhaustive sweep: all 69 905 sets of <= 4 intervals over coordinates 0..3 (thorough: also all 1 048 576 sets of 5), positions -1..4, queried, scribbled, queried again. distinct_nontrivial counts distinct (index, callers' programs, executed schedule) triples; evaluations counts cases executed.",
		Assumptions: []string{
			"the brute-force scan {x | starts[x] <= i < ends[x]} ascending is the model; nil and empty results are equal",
			"the API has no mutating operation, so linearizability degenerates to 'every At in every interleaving equals the model'; porcupine would add nothing",
			"statement granularity: a yield before every statement (not inside expressions); sync primitives are replaced by cooperative shims in the scratch copy; packages using goroutines or channels fall back to operation granularity (reported)",
			"schedules are sampled, not enumerated; the race detector is deliberately not the oracle (real-thread runs do not replay, benign races change no answer)",
			"atomicity model: a statement of the instrumented package is atomic, calls into uninstrumented packages other than sort and sync are atomic too (package slices is not modelled); torn multi-word reads/writes under true parallelism are outside the model",
			"a violation that depends on package-level state carried from case to case is replayed by re-running the finding shard's run sequence (deterministic), since the case alone does not reproduce it",
		},
		Components: map[string]any{"real": []string{"biostuff regions (operation-granular phase and the sweep: the package itself, built from /repo's working tree)"},
			"instrumented_copy":     []string{"regions/*.go of the working tree with simrt.Yield inserted before every statement and sync replaced by cooperative shims (statement-granular phase); nothing else changed"},
			"simulated_environment": []string{"callers sharing the index", "the scheduler (who runs next at every yield)", "callers scribbling over returned slices"}, "stubbed": []string{}},
		Runs: map[string]int{"quick": 400000, "thorough": 40000000},
		Run:  RunC16,
	},
	"C18": {
		Level: "fault_enumeration",
		Rule: "A run draws one case: an iterator (Reader of a format under a delivery plan, in 60% with an injected read fault; File on plain / .gz / torn .gz / directory / missing path; PreOrder/PostOrder of a generated tree (4% of them spines of 30-300 levels with side leaves, so that explicit stacks grow past 32/64/128/256 entries); trie ForEach with simulator-chosen child order; CanonicalSubsequences) and its environment, records the uninterrupted run x_0..x_{N-1}, then stops at EVERY position j in [0,N) in each of three consumer styles (direct call with a counting yield, for-range + break, iter.Pull + stop). Iterators that can be walked again (File, traversals, ForEach, CanonicalSubsequences) use ONE iterator value for all runs of the case and are run to the end again after every stop (a stop must leave nothing behind); after the stops two walks are kept alive at the same time (iter.Pull, for CanonicalSubsequences over different sequences), and 4% of File cases do 300 stopped walks in a row under a descriptor budget (RLIMIT_NOFILE=200, collector off) before a last full walk. 35% of the injected read faults are transient (one error, then the rest of the data arrives); error values come from the same palette as in C07; 3% of reader inputs start with gzip magic or a byte order mark; 0.04% of runs are long iterations (66 000-140 000 items) (also runs of malformed SAM lines) whose sampled stop positions include the neighbours of every power of two and of ten; 0.08% of File cases use a 9-11 MiB file. " +
			"distinct_nontrivial counts distinct cases with N >= 1 (by content hash of the case); evaluations counts iterator executions (1 + 3N per case, 1 + 6N for re-walkable iterators).",
		Assumptions: []string{
			"the uninterrupted run in the same environment is the reference for 'leading items'",
			"cases whose uninterrupted run hits the step cap (an iterator that never ends under a persistent failure) or panics are skipped and counted: termination is C07's clause, parser totality is C11's",
			"for ForEach only 'j+1 distinct members of the full result' is required, even when the hook makes the order reproducible",
			"an iterator that keeps reading (without calling back) after the consumer declined is not flagged: the property does not state it",
		},
		Components: map[string]any{"real": append([]string{"biostuff newick traversal, trie.ForEach, sequtil.CanonicalSubsequences"}, realCommon...), "simulated_environment": []string{"the consumer (stop position, style)", "io.Reader with delivery plan and fault", "storage configurations on the real file system", "map iteration order via the guarded hook"}, "stubbed": []string{}},
		Runs:       map[string]int{"quick": 300000, "thorough": 8000000},
		Run:        RunC18,
		Setup:      SetupC18,
	},
	"C07": {
		Level: "fault_enumeration",
		Rule: "A run draws one case from the run PRNG: (read) a format and a generated well-formed text whose fault-free decode is verified error-free, then EVERY fault offset 0..len x {error once then EOF, error forever} x {error alone, error with the last chunk} under one of three delivery plans, the injected error value drawn from a palette (plain, io.ErrUnexpectedEOF, a timeout, closed pipe, *fs.PathError, io.ErrNoProgress, an error that wraps io.EOF without being it); 40% of the write cases use a destination that also implements io.ByteWriter and io.StringWriter; " +
			"(write) a generated record (6% with 4-9 KiB of payload, in the thorough tier also 64-130 KiB), then EVERY byte offset of its output (beyond 3000 bytes: all offsets near 4 KiB multiples, the first and last 300, 600 random) x {sticky, transient} x {partial, nothing accepted}; (file) a directory in place of the file and the .gz form torn at offsets strictly before the 8-byte trailer. " +
			"distinct_nontrivial counts distinct (format, input bytes, mode/plan style) cases whose enumeration ran (a case is non-trivial iff its reference decode was clean, so that faults were actually injected); evaluations counts executions of the code under test.",
		Assumptions: []string{
			"'well-formed' is established by the fault-free one-shot decode being error-free (inputs failing this are skipped and counted)",
			"error items are compared by position and non-nil-ness only, never by wording or type",
			"bounded liveness B=1000 further Read calls / items after the fault began stands for 'ends after finitely many items'",
			"gzip truncation only at offsets <= len-9 of a single-member file (inside the trailer a clean end may be legitimate)",
			"input dimension is sampled; fault offset dimension is enumerated completely per input up to ~1 KiB; for 4-10 KiB inputs a stratum (all offsets within 3 of a line boundary or of a 4096 multiple plus 200 random, thinned to 350 quick / 1000 thorough); 70-400 KiB inputs (thorough only) and inputs with a line beyond 1 MiB (0.06% quick, 0.1% thorough) get 100-300 sampled offsets and reads of at least 512 bytes",
			"EINTR is not in the error palette: a reader may legitimately retry it",
		},
		Components: map[string]any{"real": realCommon, "simulated_environment": []string{"io.Reader (sim.Stream: delivery plan + fault)", "io.Writer (sim.Sink: acceptance plan)", "consumer that keeps iterating past errors", "storage: scratch directory on the real file system (directory-as-path, torn .gz)"}, "stubbed": []string{}},
		Runs:       map[string]int{"quick": 10000, "thorough": 120000},
		Run:        RunC07,
	},
}
