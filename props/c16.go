package props

import (
	"fmt"
	"math"
	"runtime"
	"sort"
	"strings"

	"verif/core"
	"verif/simrt"

	"github.com/fluhus/biostuff/regions"
)

// C16 — the interval index reports exactly the intervals covering a position,
// also when it is shared by interleaved callers that scribble over the slices
// it returned.
//
// Clauses: C16.at (an At answer differs from the brute-force scan), C16.panic,
// C16.newindex-no-panic (unequal lengths accepted), C16.deadlock,
// C16.nontermination. Keys carry the granularity: /op or /stmt.

// RegIndex is the part of *regions.Index the callers use.
type RegIndex interface{ At(int) []int }

// Index factories. NewIndexInst is set only in the binary that links the
// instrumented scratch copy of regions/ (built by c16/run.sh).
var (
	NewIndexReal = func(starts, ends []int) RegIndex { return regions.NewIndex(starts, ends) }
	NewIndexInst func(starts, ends []int) RegIndex
	SiteFuncs    []string
	NoStmtReason string
)

// RegOp is one operation of a caller.
type RegOp struct {
	Op   string `json:"op"`            // at | scribble
	Pos  int    `json:"pos,omitempty"` // at: the position
	Ref  int    `json:"ref,omitempty"` // scribble: which earlier At result of this caller (index among its at-ops)
	Mode int    `json:"mode,omitempty"`
}

// RegionsCase is a shared index, its callers and the interleaving.
type RegionsCase struct {
	Starts   []int     `json:"starts"`
	Ends     []int     `json:"ends"`
	Tasks    [][]RegOp `json:"tasks"`
	Gran     string    `json:"granularity"` // op | stmt
	Strategy string    `json:"strategy,omitempty"`
	Schedule []int     `json:"schedule"` // the caller chosen at every scheduling point
	// Spare capacity of the slices handed to NewIndex (a caller's reusable buffer, a
	// truncated longer slice): the content beyond len is the caller's business.
	StartsSpare int `json:"starts_spare_cap,omitempty"`
	EndsSpare   int `json:"ends_spare_cap,omitempty"`
	// A second, unrelated index built after the first and before any query (construction
	// of one index must not disturb another that is still in use).
	OtherStarts []int `json:"other_starts,omitempty"`
	OtherEnds   []int `json:"other_ends,omitempty"`
	// GOMAXPROCS during construction and queries (0: leave as is). An environment setting
	// the answers must not depend on.
	Procs int `json:"gomaxprocs,omitempty"`
}

func (rc *RegionsCase) size() int {
	n := 2*len(rc.Starts) + len(rc.Schedule) + 2*len(rc.OtherStarts)
	for _, t := range rc.Tasks {
		n += 1 + 2*len(t)
	}
	// context switches count too: fewer is simpler
	for i := 1; i < len(rc.Schedule); i++ {
		if rc.Schedule[i] != rc.Schedule[i-1] {
			n++
		}
	}
	return n
}

func (rc *RegionsCase) String() string {
	var b strings.Builder
	fmt.Fprintf(&b, "starts=%v ends=%v gran=%s ", rc.Starts, rc.Ends, rc.Gran)
	if rc.StartsSpare > 0 || rc.EndsSpare > 0 {
		fmt.Fprintf(&b, "spare_cap=%d/%d ", rc.StartsSpare, rc.EndsSpare)
	}
	if len(rc.OtherStarts) > 0 {
		fmt.Fprintf(&b, "then_another_index(starts=%v ends=%v) ", rc.OtherStarts, rc.OtherEnds)
	}
	if rc.Procs > 0 {
		fmt.Fprintf(&b, "GOMAXPROCS=%d ", rc.Procs)
	}
	for i, t := range rc.Tasks {
		fmt.Fprintf(&b, "caller%d[", i)
		for _, o := range t {
			if o.Op == "at" {
				fmt.Fprintf(&b, "At(%d) ", o.Pos)
			} else {
				fmt.Fprintf(&b, "scribble(result#%d,mode%d) ", o.Ref, o.Mode)
			}
		}
		b.WriteString("] ")
	}
	sw := 0
	for i := 1; i < len(rc.Schedule); i++ {
		if rc.Schedule[i] != rc.Schedule[i-1] {
			sw++
		}
	}
	fmt.Fprintf(&b, "schedule: %d points, %d switches", len(rc.Schedule), sw)
	if len(rc.Schedule) <= 40 {
		fmt.Fprintf(&b, " %v", rc.Schedule)
	}
	return b.String()
}

// modelAt is the reference: a brute-force scan.
func modelAt(starts, ends []int, i int) []int {
	var out []int
	for x := range starts {
		if starts[x] <= i && i < ends[x] {
			out = append(out, x)
		}
	}
	return out
}

func sameInts(a, b []int) bool {
	if len(a) != len(b) {
		return false
	}
	for i := range a {
		if a[i] != b[i] {
			return false
		}
	}
	return true
}

// scribble attacks a slice At returned.
func scribble(res []int, mode int) {
	switch mode % 3 {
	case 0:
		for i := range res {
			res[i] = -1 - i
		}
	case 1:
		full := res[:cap(res)]
		for i := range full {
			full[i] = 1000 + i
		}
	case 2:
		r := res[:0]
		for i := 0; i < cap(res); i++ {
			r = append(r, 7777)
		}
	}
}

// regSched interleaves caller goroutines, exactly one runnable at a time.
type regSched struct {
	n        int
	resume   []chan struct{}
	events   chan int // 0 yield, 1 done, 2 blocked
	cur      int
	done     []bool
	blocked  []bool
	abort    bool
	lastSite int
	trace    []int
	choose   func(runnable []int, cur int, step int) int
	preempt  map[string]int64
	yields   int
}

type abortTask struct{}

const regStepCap = 200000

func execC16(c *Case) *Verdict {
	v, _ := execC16Trace(c, nil)
	return v
}

type regTrace struct {
	schedHash uint64
	yields    int
	switches  int
	preempt   map[string]int64
	trace     []int
	blocks    int
}

// execC16Trace runs a case. choose==nil replays c.Regions.Schedule.
func execC16Trace(c *Case, choose func(runnable []int, cur int, step int) int) (verdict *Verdict, tr regTrace) {
	rc := c.Regions
	gran := rc.Gran
	if gran == "" {
		gran = "op"
	}
	key := "/" + gran
	newIndex := NewIndexReal
	if gran == "stmt" {
		if NewIndexInst == nil {
			return nil, tr // the instrumented copy is not linked into this binary
		}
		newIndex = NewIndexInst
	}
	if choose == nil {
		sch := rc.Schedule
		choose = func(runnable []int, cur int, step int) int {
			if step < len(sch) {
				for _, t := range runnable {
					if t == sch[step] {
						return t
					}
				}
			}
			for _, t := range runnable {
				if t == cur {
					return t
				}
			}
			return runnable[0]
		}
	}
	// Construction, yields disabled.
	var idx RegIndex
	var pan any
	withSpare := func(x []int, spare int) []int {
		y := make([]int, len(x), len(x)+spare)
		copy(y, x)
		for i, full := len(x), y[:cap(y)]; i < len(full); i++ {
			full[i] = 424242 + i // what lies beyond len is not part of the argument
		}
		return y
	}
	if rc.Procs > 0 {
		defer runtime.GOMAXPROCS(runtime.GOMAXPROCS(rc.Procs))
	}
	func() {
		defer func() { pan = recover() }()
		idx = newIndex(withSpare(rc.Starts, rc.StartsSpare), withSpare(rc.Ends, rc.EndsSpare))
		if len(rc.OtherStarts) > 0 && len(rc.OtherStarts) == len(rc.OtherEnds) {
			other := newIndex(withSpare(rc.OtherStarts, 0), withSpare(rc.OtherEnds, 0))
			other.At(0)
		}
	}()
	if len(rc.Starts) != len(rc.Ends) {
		if pan == nil {
			return &Verdict{Clause: "C16.newindex-no-panic", Key: "C16.newindex-no-panic" + key,
				Detail: fmt.Sprintf("NewIndex accepted %d starts and %d ends without panicking", len(rc.Starts), len(rc.Ends))}, tr
		}
		return nil, tr
	}
	if pan != nil {
		return &Verdict{Clause: "C16.panic", Key: "C16.panic" + key, Detail: fmt.Sprint("NewIndex panicked: ", pan)}, tr
	}
	var first *Verdict
	fail := func(v *Verdict) {
		if first == nil {
			first = v
		}
	}
	// one caller's program
	body := func(t int) {
		var results [][]int
		for k, op := range rc.Tasks[t] {
			if first != nil {
				return
			}
			switch op.Op {
			case "at":
				got := idx.At(op.Pos)
				want := modelAt(rc.Starts, rc.Ends, op.Pos)
				if !sameInts(got, want) {
					fail(&Verdict{Clause: "C16.at", Key: "C16.at" + key,
						Detail:   fmt.Sprintf("caller %d, operation %d: At(%d) = %v, brute-force scan says %v", t, k, op.Pos, got, want),
						Expected: []string{fmt.Sprint(want)}, Observed: []string{fmt.Sprint(got)}})
					return
				}
				results = append(results, got)
			case "scribble":
				if op.Ref >= 0 && op.Ref < len(results) {
					scribble(results[op.Ref], op.Mode)
				}
			}
		}
	}
	if gran == "op" {
		pc := make([]int, len(rc.Tasks))
		results := make([][][]int, len(rc.Tasks))
		cur := -1
		for step := 0; ; step++ {
			var runnable []int
			for t := range rc.Tasks {
				if pc[t] < len(rc.Tasks[t]) {
					runnable = append(runnable, t)
				}
			}
			if len(runnable) == 0 || first != nil {
				break
			}
			t := choose(runnable, cur, step)
			if t != cur && cur >= 0 {
				tr.switches++
			}
			cur = t
			tr.trace = append(tr.trace, t)
			op := rc.Tasks[t][pc[t]]
			k := pc[t]
			pc[t]++
			func() {
				defer func() {
					if r := recover(); r != nil {
						fail(&Verdict{Clause: "C16.panic", Key: "C16.panic" + key, Detail: fmt.Sprintf("caller %d, operation %d panicked: %v", t, k, r)})
					}
				}()
				switch op.Op {
				case "at":
					got := idx.At(op.Pos)
					want := modelAt(rc.Starts, rc.Ends, op.Pos)
					if !sameInts(got, want) {
						fail(&Verdict{Clause: "C16.at", Key: "C16.at" + key,
							Detail:   fmt.Sprintf("caller %d, operation %d: At(%d) = %v, brute-force scan says %v", t, k, op.Pos, got, want),
							Expected: []string{fmt.Sprint(want)}, Observed: []string{fmt.Sprint(got)}})
						return
					}
					results[t] = append(results[t], got)
				case "scribble":
					if op.Ref >= 0 && op.Ref < len(results[t]) {
						scribble(results[t][op.Ref], op.Mode)
					}
				}
			}()
		}
		tr.schedHash = hashSeq(tr.trace)
		return first, tr
	}

	// Statement granularity: caller goroutines parked and released one at a time.
	s := &regSched{n: len(rc.Tasks), events: make(chan int), preempt: map[string]int64{}}
	s.resume = make([]chan struct{}, s.n)
	s.done = make([]bool, s.n)
	s.blocked = make([]bool, s.n)
	park := func(kind int) {
		me := s.cur
		s.events <- kind
		<-s.resume[me]
		if s.abort {
			panic(abortTask{})
		}
	}
	simrt.Hook = func(site int) { s.lastSite = site; park(0) }
	simrt.BlockHook = func() { park(2) }
	simrt.WakeHook = func() {
		for i := range s.blocked {
			s.blocked[i] = false
		}
	}
	defer func() { simrt.Hook, simrt.BlockHook, simrt.WakeHook = nil, nil, nil }()
	for t := 0; t < s.n; t++ {
		s.resume[t] = make(chan struct{})
		go func(t int) {
			<-s.resume[t]
			defer func() {
				if r := recover(); r != nil {
					if _, ok := r.(abortTask); !ok {
						fail(&Verdict{Clause: "C16.panic", Key: "C16.panic" + key, Detail: fmt.Sprintf("caller %d panicked: %v", t, r)})
					}
				}
				s.events <- 1
			}()
			if !s.abort {
				body(t)
			}
		}(t)
	}
	s.cur = -1
	var stuck *Verdict
	for step := 0; ; step++ {
		var runnable []int
		alive := 0
		for t := 0; t < s.n; t++ {
			if !s.done[t] {
				alive++
				if !s.blocked[t] {
					runnable = append(runnable, t)
				}
			}
		}
		if alive == 0 {
			break
		}
		if len(runnable) == 0 {
			stuck = &Verdict{Clause: "C16.deadlock", Key: "C16.deadlock" + key, Detail: fmt.Sprintf("all %d remaining callers are blocked on a lock", alive)}
			break
		}
		if step > regStepCap {
			stuck = &Verdict{Clause: "C16.nontermination", Key: "C16.nontermination" + key, Detail: fmt.Sprintf("more than %d scheduling points", regStepCap)}
			break
		}
		t := choose(runnable, s.cur, step)
		if t != s.cur && s.cur >= 0 && !s.done[s.cur] {
			tr.switches++
			if s.lastSite >= 0 && s.lastSite < len(SiteFuncs) {
				s.preempt[SiteFuncs[s.lastSite]]++
			}
		}
		s.cur = t
		tr.trace = append(tr.trace, t)
		s.resume[t] <- struct{}{}
		switch <-s.events {
		case 0:
			tr.yields++
		case 1:
			s.done[t] = true
		case 2:
			s.blocked[t] = true
			tr.blocks++
		}
		if first != nil && stuck == nil {
			// a verdict exists: let everybody run to completion (bodies return at once) to avoid leaks
		}
	}
	if stuck != nil {
		// release the parked goroutines
		s.abort = true
		for t := 0; t < s.n; t++ {
			if !s.done[t] {
				s.cur = t
				s.resume[t] <- struct{}{}
				<-s.events
				s.done[t] = true
			}
		}
		if first == nil {
			first = stuck
		}
	}
	tr.schedHash = hashSeq(tr.trace)
	tr.preempt = s.preempt
	return first, tr
}

func switchesOf(s []int) int {
	n := 0
	for i := 1; i < len(s); i++ {
		if s[i] != s[i-1] {
			n++
		}
	}
	return n
}

func shrinkRegions(c *Case, try func(*Case) bool) bool {
	if c.Regions == nil {
		return false
	}
	any := false
	rc := func() *RegionsCase { return c.Regions }
	if rc().StartsSpare > 0 || rc().EndsSpare > 0 {
		d := c.Clone()
		d.Regions.StartsSpare, d.Regions.EndsSpare = 0, 0
		if try(d) {
			any = true
		}
	}
	if len(rc().OtherStarts) > 0 {
		d := c.Clone()
		d.Regions.OtherStarts, d.Regions.OtherEnds = nil, nil
		if try(d) {
			any = true
		} else {
			for len(rc().OtherStarts) > 1 {
				e := c.Clone()
				h := len(e.Regions.OtherStarts) / 2
				e.Regions.OtherStarts, e.Regions.OtherEnds = e.Regions.OtherStarts[:h], e.Regions.OtherEnds[:h]
				if !try(e) {
					break
				}
				any = true
			}
		}
	}
	if rc().Procs > 0 {
		d := c.Clone()
		d.Regions.Procs = 0
		if try(d) {
			any = true
		}
	}
	// drop intervals
	for i := 0; i < len(rc().Starts) && len(rc().Starts) == len(rc().Ends); {
		d := c.Clone()
		d.Regions.Starts = append(d.Regions.Starts[:i], d.Regions.Starts[i+1:]...)
		d.Regions.Ends = append(d.Regions.Ends[:i], d.Regions.Ends[i+1:]...)
		if try(d) {
			any = true
			continue
		}
		i++
	}
	// drop callers
	for t := 0; t < len(rc().Tasks) && len(rc().Tasks) > 1; {
		d := c.Clone()
		d.Regions.Tasks = append(d.Regions.Tasks[:t], d.Regions.Tasks[t+1:]...)
		var sch []int
		for _, x := range d.Regions.Schedule {
			switch {
			case x == t:
			case x > t:
				sch = append(sch, x-1)
			default:
				sch = append(sch, x)
			}
		}
		d.Regions.Schedule = sch
		if try(d) {
			any = true
			continue
		}
		t++
	}
	// drop operations
	for t := 0; t < len(rc().Tasks); t++ {
		for k := 0; k < len(rc().Tasks[t]); {
			d := c.Clone()
			ops := d.Regions.Tasks[t]
			d.Regions.Tasks[t] = append(ops[:k], ops[k+1:]...)
			if try(d) {
				any = true
				continue
			}
			k++
		}
	}
	// statement granularity: look for a schedule with a single pre-emption
	// (caller a runs k points, then caller b runs to completion, then the rest in order)
	if rc().Gran == "stmt" && switchesOf(rc().Schedule) > 1 {
		key := ""
		if v := Exec(c); v != nil {
			key = v.Key
		}
	search:
		for a := 0; a < len(rc().Tasks) && key != ""; a++ {
			for b := 0; b < len(rc().Tasks); b++ {
				if a == b {
					continue
				}
				for k := 1; k <= len(rc().Schedule) && k <= 120; k++ {
					d := c.Clone()
					sch := make([]int, 0, k+1)
					for i := 0; i < k; i++ {
						sch = append(sch, a)
					}
					d.Regions.Schedule = append(sch, b)
					v, tr := execC16Trace(d, nil)
					if v == nil || v.Key != key {
						continue
					}
					// keep the executed trace up to its last switch; the rest is the default
					last := 0
					for i := 1; i < len(tr.trace); i++ {
						if tr.trace[i] != tr.trace[i-1] {
							last = i
						}
					}
					d.Regions.Schedule = append([]int(nil), tr.trace[:last+1]...)
					if d.Regions.size() < rc().size() && try(d) {
						any = true
						break search
					}
				}
			}
		}
	}
	// fewer context switches: make a point continue the previous caller
	for i := 1; i < len(rc().Schedule); i++ {
		if rc().Schedule[i] != rc().Schedule[i-1] {
			d := c.Clone()
			d.Regions.Schedule[i] = d.Regions.Schedule[i-1]
			if try(d) {
				any = true
			}
		}
	}
	// drop the tail of the schedule (the default continues the current caller)
	for len(rc().Schedule) > 0 {
		d := c.Clone()
		d.Regions.Schedule = d.Regions.Schedule[:len(d.Regions.Schedule)/2]
		if !try(d) {
			break
		}
		any = true
	}
	// statement granularity -> operation granularity
	if rc().Gran == "stmt" {
		d := c.Clone()
		d.Regions.Gran = "op"
		_ = d // a different key: never accepted by the shrinker, kept for clarity
	}
	// smaller coordinates
	for i := range rc().Starts {
		for _, which := range []int{0, 1} {
			d := c.Clone()
			p := &d.Regions.Starts[i]
			if which == 1 {
				if i >= len(d.Regions.Ends) {
					continue
				}
				p = &d.Regions.Ends[i]
			}
			if *p > 9 || *p < -9 {
				*p = *p % 10
				if try(d) {
					any = true
				}
			}
		}
	}
	return any
}

func coord(r *core.Rng, style int) int {
	switch style {
	case 0:
		return r.Range(0, 6)
	case 1:
		return r.Range(-5, 12)
	case 2:
		return r.Range(-1000000, 1000000)
	default:
		return core.Pick(r, []int{math.MinInt, math.MinInt + 1, -1, 0, 1, math.MaxInt - 1, math.MaxInt, r.Range(-3, 3)})
	}
}

// genExtent draws an overall extent [lo, lo+q] whose width sits on an
// arithmetic cliff relative to the number of intervals n: q = W/(k*n) + {-1,0,1}
// for a machine word limit W and a small factor k. Code that scales offsets by
// the interval count (packed sort keys, bucket indices, mid-point sums) is
// right on one side of such a width and overflows on the other.
func genExtent(r *core.Rng, n int) (lo int, q uint64) {
	w := core.Pick(r, []uint64{math.MaxUint64, math.MaxInt64, math.MaxUint32, math.MaxInt32})
	k := uint64(r.Range(1, 4))
	q = w/(k*uint64(n)) + uint64(r.Range(-1, 1)) // wraps only for w = MaxUint64, k*n = 1, +1: q = 0
	if q == 0 {
		q = 1
	}
	lo = core.Pick(r, []int{math.MinInt, 0, -1, 1, r.Range(-1000, 1000), int(uint64(math.MaxInt) - q)})
	if room := uint64(math.MaxInt) - uint64(lo); q > room || q > math.MaxInt && lo > 0 {
		lo = math.MinInt
	}
	return lo, q
}

func genRegionsCase(r *core.Rng, gran string) *RegionsCase {
	rc := &RegionsCase{Gran: gran}
	n := r.Range(0, 12)
	if r.Chance(0.3) {
		n = r.Range(0, 4)
	}
	style := core.Pick(r, []int{0, 0, 1, 1, 2, 3, 4})
	var exLo int
	var exQ uint64
	if style == 4 {
		if n == 0 {
			n = r.Range(1, 12)
		}
		exLo, exQ = genExtent(r, n)
	}
	coord := func(r *core.Rng, style int) int {
		if style != 4 {
			return coord(r, style)
		}
		hi := int(uint64(exLo) + exQ)
		small := uint64(r.Range(0, 3))
		if small > exQ {
			small = exQ
		}
		switch r.Intn(6) {
		case 0, 1:
			return exLo
		case 2, 3:
			return hi
		case 4:
			if r.Bool() {
				return int(uint64(exLo) + small)
			}
			return int(uint64(hi) - small)
		default:
			if exQ == math.MaxUint64 {
				return int(r.Uint64())
			}
			return int(uint64(exLo) + r.Uint64()%(exQ+1))
		}
	}
	big := r.Chance(0.06)
	if big { // many intervals piled on the same positions (beyond 16/32/64-element thresholds)
		n = core.Pick(r, []int{17, 33, 40, 65, 70, 130})
		style = 0
	}
	for i := 0; i < n; i++ {
		s, e := coord(r, style), coord(r, style)
		if big && r.Chance(0.8) {
			s, e = r.Range(0, 3), r.Range(4, 8)
		}
		switch r.Intn(10) {
		case 0:
			e = s // empty
		case 1:
			if len(rc.Starts) > 0 { // duplicate of an earlier interval
				j := r.Intn(len(rc.Starts))
				s, e = rc.Starts[j], rc.Ends[j]
			}
		case 2:
			if len(rc.Starts) > 0 { // touching an earlier interval
				s = rc.Ends[r.Intn(len(rc.Ends))]
			}
		case 3, 4, 5:
			if s > e {
				s, e = e, s
			}
		}
		rc.Starts = append(rc.Starts, s)
		rc.Ends = append(rc.Ends, e)
	}
	// positions of interest
	var pts []int
	add := func(p int) { pts = append(pts, p) }
	lo, hi := math.MaxInt, math.MinInt
	for i := range rc.Starts {
		for _, p := range []int{rc.Starts[i], rc.Ends[i]} {
			add(p)
			if p > math.MinInt {
				add(p - 1)
			}
			if p < math.MaxInt {
				add(p + 1)
			}
			if p < lo {
				lo = p
			}
			if p > hi {
				hi = p
			}
		}
	}
	if len(rc.Starts) == 0 {
		lo, hi = 0, 0
	}
	if lo > math.MinInt+1 {
		add(lo - 2)
	}
	if hi < math.MaxInt-1 {
		add(hi + 2)
	}
	add(math.MinInt)
	add(math.MaxInt)
	nt := r.Range(1, 4)
	maxOps := 8
	if big {
		nt = r.Range(2, 4)
		maxOps = 25 // state that builds up over many calls
	}
	for t := 0; t < nt; t++ {
		var ops []RegOp
		ats := 0
		for k, no := 0, r.Range(1, maxOps); k < no; k++ {
			if ats > 0 && r.Chance(0.3) {
				ops = append(ops, RegOp{Op: "scribble", Ref: r.Intn(ats), Mode: r.Intn(3)})
				continue
			}
			p := pts[r.Intn(len(pts))]
			if r.Chance(0.15) {
				p = coord(r, style)
			}
			// callers like to ask again where somebody asked (or scribbled) before
			if r.Chance(0.3) && len(rc.Tasks)+len(ops) > 0 {
				var prev []RegOp
				for _, tt := range rc.Tasks {
					prev = append(prev, tt...)
				}
				prev = append(prev, ops...)
				if o := prev[r.Intn(len(prev))]; o.Op == "at" {
					p = o.Pos
				}
			}
			ops = append(ops, RegOp{Op: "at", Pos: p})
			ats++
		}
		rc.Tasks = append(rc.Tasks, ops)
	}
	return rc
}

// genChooser draws a scheduling strategy; every choice comes from the run PRNG.
func genChooser(r *core.Rng, ntasks int) (string, func(runnable []int, cur int, step int) int) {
	switch r.Intn(3) {
	case 0:
		return "uniform", func(runnable []int, cur int, step int) int { return runnable[r.Intn(len(runnable))] }
	case 1:
		stick := 0.6 + 0.39*r.Float64()
		return "sticky", func(runnable []int, cur int, step int) int {
			if r.Chance(stick) {
				for _, t := range runnable {
					if t == cur {
						return t
					}
				}
			}
			return runnable[r.Intn(len(runnable))]
		}
	default:
		// PCT-style: fixed random priorities, d priority-change points
		prio := r.Perm(ntasks)
		d := r.Range(0, 3)
		change := map[int]bool{}
		for i := 0; i < d; i++ {
			change[r.Intn(300)] = true
		}
		low := -1
		return "pct", func(runnable []int, cur int, step int) int {
			best := runnable[0]
			for _, t := range runnable {
				if prio[t] > prio[best] {
					best = t
				}
			}
			if change[step] {
				prio[best] = low
				low--
				best = runnable[0]
				for _, t := range runnable {
					if prio[t] > prio[best] {
						best = t
					}
				}
			}
			return best
		}
	}
}

const regSweepSlices = 17

// regSweepSlicesFor: the thorough tier adds all 16^5 = 1 048 576 sets of exactly
// five intervals over coordinates 0..3, in 256 slices (first two intervals fixed).
func regSweepSlicesFor(tier string) int {
	if tier == "thorough" {
		return regSweepSlices + 256
	}
	return regSweepSlices
}

// RunC16 is one simulated run.
func RunC16(ctx *core.Ctx, r *core.Rng) {
	Noise(ctx, r)
	if ctx.Run() < regSweepSlicesFor(ctx.Tier) {
		runC16Sweep(ctx, ctx.Run())
		return
	}
	grans := []string{"op"}
	if NewIndexInst != nil {
		grans = append(grans, "stmt", "stmt")
	} else {
		ctx.Stats.Inc("skipped_stmt_phase_not_linked")
	}
	for _, gran := range grans {
		rc := genRegionsCase(r, gran)
		c := &Case{Clause: "C16", Regions: rc}
		if r.Chance(0.03) {
			// unequal lengths must make NewIndex panic
			if r.Bool() {
				rc.Starts = append(rc.Starts, 1)
			} else {
				rc.Ends = append(rc.Ends, 1)
			}
			ctx.Stats.Inc("fault_fired/newindex_unequal_lengths")
		}
		if r.Chance(0.3) { // a second index is built while the first is still in use
			o := genRegionsCase(r, gran)
			rc.OtherStarts, rc.OtherEnds = o.Starts, o.Ends
			if len(rc.OtherStarts) == 0 {
				rc.OtherStarts, rc.OtherEnds = []int{0, 2}, []int{5, 3}
			}
			ctx.Stats.Inc("fault_fired/another_index_built_before_the_queries")
		}
		if gran == "op" && r.Chance(0.002) { // thousands of intervals, with a GOMAXPROCS of its own
			big := core.Pick(r, []int{r.Range(4096, 5000), r.Range(4096, 9000), r.Range(16384, 21000)})
			sorted := r.Bool() // starts already ascending, as from a sorted BED file: long intervals containing runs of short ones
			rc.Starts, rc.Ends = nil, nil
			pos := -50
			for i := 0; i < big; i++ {
				s0 := r.Range(-50, 1000)
				if sorted {
					pos += r.Range(0, 2)
					s0 = pos
				}
				e0 := s0 + r.Range(-1, 30)
				if r.Chance(0.02) {
					e0 = s0 + r.Range(100, 4000) // a long one
				}
				rc.Starts = append(rc.Starts, s0)
				rc.Ends = append(rc.Ends, e0)
			}
			rc.Procs = core.Pick(r, []int{1, 3, 4, 5, 7, 8})
			// one caller sweeps a few hundred positions
			var sweep []RegOp
			for q := 0; q < 400; q++ {
				i := r.Intn(big)
				sweep = append(sweep, RegOp{Op: "at", Pos: core.Pick(r, []int{rc.Starts[i], rc.Ends[i], rc.Ends[i] - 1, rc.Starts[i] + 1})})
			}
			rc.Tasks = append(rc.Tasks, sweep)
			ctx.Stats.Inc("probe/index_over_4096_intervals")
			if sorted {
				ctx.Stats.Inc("probe/index_over_4096_intervals_with_ascending_starts")
			}
		}
		if r.Chance(0.3) { // reusable buffers / truncated slices: spare capacity behind the arguments
			rc.StartsSpare = core.Pick(r, []int{1, 2, len(rc.Starts) + len(rc.Ends), 2*len(rc.Starts) + 3, 64})
			rc.EndsSpare = core.Pick(r, []int{0, 1, 2, len(rc.Ends) + 3, 64})
			ctx.Stats.Inc("fault_fired/arguments_with_spare_capacity")
		}
		NoiseP(ctx, r, 0.1) // other corners of the library used right before this index is built
		strat, choose := genChooser(r, len(rc.Tasks))
		rc.Strategy = strat
		v, tr := execC16Trace(c, choose)
		rc.Schedule = tr.trace
		ctx.Eval()
		ctx.EvS(fmt.Sprint(rc.Starts, rc.Ends, gran, strat))
		ctx.EvU(tr.schedHash, uint64(tr.yields), uint64(tr.switches))
		ctx.Seen(tr.schedHash ^ core.HashString(fmt.Sprint(rc.Starts, rc.Ends, rc.Tasks)))
		ctx.Stats.Add("yields/"+gran, int64(tr.yields))
		if tr.blocks > 0 {
			ctx.Stats.Add("probe/caller_parked_on_a_held_lock", int64(tr.blocks))
		}
		ctx.Stats.Add("fault_fired/context_switch_"+gran, int64(tr.switches))
		ctx.Stats.Inc("cases/" + gran + "/" + strat)
		names := make([]string, 0, len(tr.preempt))
		for fn := range tr.preempt {
			names = append(names, fn)
		}
		sort.Strings(names)
		for _, fn := range names {
			ctx.Stats.Add("probe/preempted_inside/"+fn, tr.preempt[fn])
		}
		degenerate := false
		for i := range rc.Starts {
			if i < len(rc.Ends) && rc.Starts[i] >= rc.Ends[i] {
				degenerate = true
			}
		}
		for _, t := range rc.Tasks {
			scribbled := false
			for _, o := range t {
				switch {
				case o.Op == "scribble":
					scribbled = true
					ctx.Stats.Inc("fault_fired/result_slice_scribbled_" + gran)
				case scribbled:
					ctx.Stats.Inc("probe/at_after_scribble")
					scribbled = false
				}
				if o.Op == "at" && degenerate {
					for i := range rc.Starts {
						if i < len(rc.Ends) && rc.Starts[i] >= rc.Ends[i] && o.Pos >= rc.Starts[i] {
							ctx.Stats.Inc("probe/degenerate_interval_queried_at_or_after_start")
							break
						}
					}
				}
			}
		}
		if v != nil {
			ctx.EvS(v.Key)
			report(ctx, c, v)
		}
		if ctx.Run() < regSweepSlicesFor(ctx.Tier)+24 {
			ctx.Sample(map[string]any{"case": rc.String()})
		}
	}
	if NewIndexInst != nil && r.Chance(0.03) {
		runC16OnePreemption(ctx, r)
	}
}

// runC16OnePreemption: small-scope exhaustive component of the schedule search.
// For a small case (2-3 callers, <= 4 operations each) EVERY schedule with exactly
// one pre-emption is executed: caller a runs k scheduling points, then caller b
// runs to completion, then the rest in order -- for every a, every k and every b.
func runC16OnePreemption(ctx *core.Ctx, r *core.Rng) {
	rc := genRegionsCase(r, "stmt")
	if len(rc.Tasks) < 2 {
		rc.Tasks = append(rc.Tasks, append([]RegOp(nil), rc.Tasks[0]...))
	}
	if len(rc.Tasks) > 3 {
		rc.Tasks = rc.Tasks[:3]
	}
	for t := range rc.Tasks {
		if len(rc.Tasks[t]) > 4 {
			rc.Tasks[t] = rc.Tasks[t][:4]
		}
	}
	if len(rc.Starts) > 40 {
		rc.Starts, rc.Ends = rc.Starts[:40], rc.Ends[:40]
	}
	// how many scheduling points each caller has when it runs alone first
	points := make([]int, len(rc.Tasks))
	for a := range rc.Tasks {
		rc.Schedule = []int{a}
		c := &Case{Clause: "C16", Regions: rc}
		_, tr := execC16Trace(c, nil)
		for _, t := range tr.trace {
			if t != a {
				break
			}
			points[a]++
		}
	}
	n := 0
	for a := range rc.Tasks {
		for k := 1; k < points[a] && k <= 150; k++ {
			for b := range rc.Tasks {
				if b == a {
					continue
				}
				sch := make([]int, k+1)
				for i := 0; i < k; i++ {
					sch[i] = a
				}
				sch[k] = b
				d := &Case{Clause: "C16", Regions: &RegionsCase{Starts: rc.Starts, Ends: rc.Ends, Tasks: rc.Tasks, Gran: "stmt",
					Strategy: "one-preemption", Schedule: sch, StartsSpare: rc.StartsSpare, EndsSpare: rc.EndsSpare}}
				v, tr := execC16Trace(d, nil)
				ctx.Eval()
				n++
				ctx.Seen(tr.schedHash ^ core.HashString(fmt.Sprint(rc.Starts, rc.Ends, rc.Tasks)))
				if v != nil {
					d.Regions.Schedule = tr.trace
					ctx.EvS(v.Key)
					report(ctx, d, v)
				}
			}
		}
	}
	ctx.EvU(uint64(n))
	ctx.Stats.Inc("exhaustive/cases_with_every_single_preemption_schedule")
	ctx.Stats.Add("exhaustive/single_preemption_schedules_executed", int64(n))
}

// runC16Sweep: all sets of up to 4 intervals over coordinates 0..3 (69 905
// sets, including start==end and start>end), every position -1..4, queried,
// scribbled in all three modes, queried again. Slice s<16 holds the sets of 4
// intervals whose first one is number s; slice 16 the sets of 0..3 intervals.
func runC16Sweep(ctx *core.Ctx, slice int) {
	iv := func(k int) (int, int) { return k / 4, k % 4 }
	count := 0
	try := func(ks []int) {
		starts := make([]int, len(ks))
		ends := make([]int, len(ks))
		for i, k := range ks {
			starts[i], ends[i] = iv(k)
		}
		rc := &RegionsCase{Starts: starts, Ends: ends, Gran: "op"}
		var ops []RegOp
		for p := -1; p <= 4; p++ {
			ops = append(ops, RegOp{Op: "at", Pos: p})
		}
		for p := 0; p < 6; p++ {
			ops = append(ops, RegOp{Op: "scribble", Ref: p, Mode: p + len(ks)})
		}
		for p := -1; p <= 4; p++ {
			ops = append(ops, RegOp{Op: "at", Pos: p})
		}
		rc.Tasks = [][]RegOp{ops}
		c := &Case{Clause: "C16", Regions: rc}
		v, _ := execC16Trace(c, nil)
		ctx.Eval()
		count++
		if v != nil {
			ctx.EvS(v.Key)
			report(ctx, c, v)
		}
	}
	if slice >= regSweepSlices {
		s := slice - regSweepSlices
		for a := 0; a < 16; a++ {
			for b := 0; b < 16; b++ {
				for d := 0; d < 16; d++ {
					try([]int{s / 16, s % 16, a, b, d})
				}
			}
		}
		ctx.EvU(uint64(slice), uint64(count))
		ctx.Stats.Add("exhaustive/sweep_interval_sets_of_5_over_0..3", int64(count))
		ctx.Seen(core.HashString(fmt.Sprint("sweep5", slice)))
		return
	}
	if slice < 16 {
		for a := 0; a < 16; a++ {
			for b := 0; b < 16; b++ {
				for d := 0; d < 16; d++ {
					try([]int{slice, a, b, d})
				}
			}
		}
	} else {
		try(nil)
		for a := 0; a < 16; a++ {
			try([]int{a})
			for b := 0; b < 16; b++ {
				try([]int{a, b})
				for d := 0; d < 16; d++ {
					try([]int{a, b, d})
				}
			}
		}
	}
	ctx.EvU(uint64(slice), uint64(count))
	ctx.Stats.Add("exhaustive/sweep_interval_sets_up_to_4_over_0..3", int64(count))
	ctx.Seen(core.HashString(fmt.Sprint("sweep", slice)))
	ctx.Seen(core.HashString(fmt.Sprint("sweep-b", slice)))
}
