package props

import (
	"bytes"
	"encoding/json"
	"fmt"
	"strconv"
	"strings"

	"verif/core"

	"github.com/fluhus/biostuff/align"
	"github.com/fluhus/biostuff/formats/bed"
	"github.com/fluhus/biostuff/formats/fasta"
	"github.com/fluhus/biostuff/formats/fastq"
	"github.com/fluhus/biostuff/formats/newick"
	"github.com/fluhus/biostuff/formats/sam"
	"github.com/fluhus/biostuff/mash"
	"github.com/fluhus/biostuff/regions"
	"github.com/fluhus/biostuff/sequtil"
	"github.com/fluhus/biostuff/trie"
)

// Noise makes a few unrelated, valid calls into other corners of the library
// at the start of about one run in eight. A process that uses one API of the
// library normally uses others too; nothing a property promises may depend on
// which of them ran before (package-level caches, pools, tables, counters).
// Every argument is valid, so the calls cannot fail on a correct tree; a panic
// here would be parser/codec territory (not decided by these checks) and is
// swallowed.
func Noise(ctx *core.Ctx, r *core.Rng) { NoiseP(ctx, r, 0.125) }

// NoiseP is Noise with its own probability (used right before single cases).
func NoiseP(ctx *core.Ctx, r *core.Rng, p float64) {
	if !r.Chance(p) {
		return
	}
	ctx.Stats.Inc("fault_fired/unrelated_library_calls_before_the_case")
	defer func() { recover() }()
	for n := r.Range(1, 4); n > 0; n-- {
		seq := r.Bytes(r.Range(0, 60), "ACGTacgtNn")
		switch r.Intn(11) {
		case 10:
			var bb bytes.Buffer
			for l := r.Range(1, 3); l > 0; l-- {
				k := r.Range(1, 30)
				var a, b []string
				for i := 0; i < k; i++ {
					a = append(a, strconv.Itoa(r.Range(0, 200)))
					b = append(b, strconv.Itoa(r.Range(0, 200)))
				}
				fmt.Fprintf(&bb, "chr1\t0\t100\tn\t5\t+\t0\t100\t1,2,3\t%d\t%s\t%s\n", k, strings.Join(a, ","), strings.Join(b, ","))
			}
			for range bed.Reader(&bb) {
				if r.Chance(0.2) {
					break
				}
			}
		case 0:
			sequtil.ReverseComplement(nil, seq)
		case 1:
			for range sequtil.CanonicalSubsequences(seq, r.Range(1, 8)) {
				if r.Chance(0.2) {
					break
				}
			}
		case 2:
			up := bytes.ToUpper(r.Bytes(r.Range(0, 40), "ACGT"))
			sequtil.DNAFrom2Bit(nil, sequtil.DNATo2Bit(nil, up))
		case 3:
			mash.Sequences(r.Range(1, 20), r.Range(1, 6), seq)
		case 4:
			align.Global(r.Bytes(r.Range(0, 12), "ACGT"), r.Bytes(r.Range(0, 12), "ACGT"), align.Levenshtein)
		case 5:
			t := trie.New()
			for i := r.Range(0, 6); i > 0; i-- {
				t.Add(r.Bytes(r.Range(0, 5), "abc"))
			}
			t.Delete(r.Bytes(r.Range(1, 3), "abc"))
			t.ForEach(func([]byte) bool { return r.Chance(0.8) })
			data, _ := json.Marshal(t)
			json.Unmarshal(data, trie.New())
		case 6:
			idx := regions.NewIndex([]int{1, 5, 3}, []int{4, 9, 3})
			idx.At(r.Range(0, 10))
		case 7:
			var b bytes.Buffer
			(&fasta.Fasta{Name: []byte("n"), Sequence: seq}).Write(&b)
			(&fastq.Fastq{Name: []byte("n"), Sequence: seq, Quals: seq}).Write(&b)
			for range fasta.Reader(&b) {
				if r.Chance(0.3) {
					break
				}
			}
		case 8:
			for range newick.Reader(bytes.NewReader([]byte("((a:1,b)c,'d e');(x);"))) {
				if r.Chance(0.3) {
					break
				}
			}
			n := &newick.Node{Name: "r", Children: []*newick.Node{{Name: "a"}, {Name: "b"}}}
			for range n.PostOrder() {
				if r.Chance(0.3) {
					break
				}
			}
		case 9:
			for range sam.Reader(bytes.NewReader([]byte("@HD\tVN:1\nq\t0\tc\t1\t2\t*\t=\t0\t0\tAC\tII\tNM:i:1\n"))) {
				if r.Chance(0.3) {
					break
				}
			}
		}
	}
}
