package props

import (
	"bytes"
	"encoding/json"
	"fmt"
	"sort"
	"strings"

	"verif/core"

	"github.com/fluhus/biostuff/trie"
)

// C15 — the trie behaves as a set of sequences under any history of updates.
//
// Clauses: C15.has, C15.foreach, C15.delete-result, C15.json (marshal/unmarshal
// error or the rebuilt trie observably different), C15.panic.

// TrieOp is one step of a history.
type TrieOp struct {
	Op       string `json:"op"`                 // add | del | restart | restart0 (unmarshal into a zero Trie)
	Arg      []byte `json:"arg,omitempty"`      // the sequence
	ArgQ     string `json:"arg_q,omitempty"`    // readable copy, ignored on replay
	Scribble bool   `json:"scribble,omitempty"` // overwrite the caller's buffer right after the call returned
	Reuse    bool   `json:"reuse,omitempty"`    // the argument is passed in the caller's one long-lived buffer (as a loop over a read buffer does)
	Nested   int    `json:"nested,omitempty"`   // k>0: after the step, a ForEach nested in the callback of another at member k-1
	PanicAt  int    `json:"panic_at,omitempty"` // k>0: after the step, a ForEach whose callback panics at member k-1; the caller recovers
	Quiet    bool   `json:"quiet,omitempty"`    // no observation after this step (correctness must not depend on being observed)
	N        int    `json:"n,omitempty"`        // churn: how many filler sequences are added and deleted again
}

// TrieCase is a history plus the observation universe and the key order plan.
type TrieCase struct {
	Alphabet []byte    `json:"alphabet"`
	MaxLen   int       `json:"max_len"` // Has is observed for every string over Alphabet up to MaxLen+1 (if small), else for a derived set
	Ops      []TrieOp  `json:"ops"`
	KeyOrder *KeyOrder `json:"key_order,omitempty"`
}

func (t *TrieCase) size() int {
	n := len(t.Alphabet)
	for _, o := range t.Ops {
		n += 1 + len(o.Arg) + o.N/1000
		if o.Nested > 0 {
			n++
		}
		if o.Scribble {
			n++
		}
	}
	return n
}

func (t *TrieCase) String() string {
	var b strings.Builder
	fmt.Fprintf(&b, "alphabet=%q ", t.Alphabet)
	for _, o := range t.Ops {
		fmt.Fprintf(&b, "%s(%q)", o.Op, o.Arg)
		if o.N > 0 {
			fmt.Fprintf(&b, "x%d", o.N)
		}
		if o.Nested > 0 {
			fmt.Fprintf(&b, "^%d", o.Nested)
		}
		if o.PanicAt > 0 {
			fmt.Fprintf(&b, "!%d", o.PanicAt)
		}
		if o.Quiet {
			b.WriteString("?")
		}
		if o.Scribble {
			b.WriteString("~")
		}
		if o.Reuse {
			b.WriteString("&")
		}
		b.WriteString(" ")
	}
	if t.KeyOrder != nil {
		fmt.Fprintf(&b, "order=%s", t.KeyOrder.Mode)
	}
	return b.String()
}

// setModel is the reference: the set M of maximal sequences, exactly as the
// property defines it. No code shared with the implementation.
type setModel map[string]struct{}

func (m setModel) add(b []byte) {
	if len(b) == 0 {
		return
	}
	s := string(b)
	for x := range m {
		if strings.HasPrefix(x, s) {
			return // b is already a prefix of a member
		}
	}
	for x := range m {
		if strings.HasPrefix(s, x) {
			delete(m, x) // absorbed: a proper prefix of b
		}
	}
	m[s] = struct{}{}
}

func (m setModel) del(b []byte) bool {
	s := string(b)
	found := false
	for x := range m {
		if strings.HasPrefix(x, s) {
			delete(m, x)
			found = true
		}
	}
	return found
}

func (m setModel) has(x string) bool {
	if x == "" {
		return true
	}
	for y := range m {
		if strings.HasPrefix(y, x) {
			return true
		}
	}
	return false
}

func (m setModel) sorted() []string {
	out := make([]string, 0, len(m))
	for x := range m {
		out = append(out, x)
	}
	sort.Strings(out)
	return out
}

func quoteAll(ss []string) []string {
	out := make([]string, len(ss))
	for i, s := range ss {
		out[i] = fmt.Sprintf("%q", s)
	}
	return out
}

// universe lists the strings whose membership is observed after every step.
func (t *TrieCase) universe() []string {
	a := t.Alphabet
	total, pw := 1, 1
	full := len(a) > 0
	for l := 1; l <= t.MaxLen+1 && full; l++ {
		pw *= len(a)
		total += pw
		if total > 6000 {
			full = false
		}
	}
	if full {
		out := []string{""}
		prev := []string{""}
		for l := 1; l <= t.MaxLen+1; l++ {
			var next []string
			for _, p := range prev {
				for _, c := range a {
					next = append(next, p+string([]byte{c}))
				}
			}
			out = append(out, next...)
			prev = next
		}
		return out
	}
	// derived: every prefix of every argument, each extended by every letter
	set := map[string]struct{}{"": {}}
	for _, o := range t.Ops {
		for i := 0; i <= len(o.Arg); i++ {
			p := string(o.Arg[:i])
			set[p] = struct{}{}
			for _, c := range a {
				set[p+string([]byte{c})] = struct{}{}
			}
		}
	}
	out := make([]string, 0, len(set))
	for x := range set {
		out = append(out, x)
	}
	sort.Strings(out)
	return out
}

// nestedForEach: an outer ForEach whose callback, at the member with index at, runs
// a complete inner ForEach on the same trie (read-only nesting, as in a double loop
// over the members). Both walks must report exactly the members.
func nestedForEach(t *trie.Trie, m setModel, at int, step int) *Verdict {
	want := m.sorted()
	var outer, inner []string
	t.ForEach(func(b []byte) bool {
		outer = append(outer, string(b))
		if len(outer)-1 == at {
			t.ForEach(func(c []byte) bool {
				inner = append(inner, string(c))
				return len(inner) <= len(m)+1000
			})
		}
		return len(outer) <= len(m)+1000
	})
	sort.Strings(outer)
	sort.Strings(inner)
	for name, got := range map[string][]string{"outer": outer, "inner": inner} {
		if name == "inner" && at >= len(want) {
			continue
		}
		same := len(got) == len(want)
		for i := 0; same && i < len(got); i++ {
			same = got[i] == want[i]
		}
		if !same {
			return &Verdict{Clause: "C15.foreach", Key: "C15.foreach", Detail: fmt.Sprintf("after step %d: with a ForEach nested inside the callback of another (at member %d), the %s walk did not report exactly the members", step, at, name),
				Expected: quoteAll(want), Observed: quoteAll(got)}
		}
	}
	return nil
}

// observe compares one trie with the model completely.
func observeTrie(t *trie.Trie, m setModel, uni []string, step int, who string) *Verdict {
	for _, x := range uni {
		if got, want := t.Has([]byte(x)), m.has(x); got != want {
			return &Verdict{Clause: "C15.has", Key: "C15.has", Detail: fmt.Sprintf("after step %d (%s): Has(%q) = %v, model says %v", step, who, x, got, want),
				Expected: quoteAll(m.sorted())}
		}
	}
	var seen []string
	t.ForEach(func(b []byte) bool {
		seen = append(seen, string(b))  // the slice may be overwritten by later iterations: copy now
		return len(seen) <= len(m)+1000 // a walk that never ends is cut off here and reported by the count below
	})
	sort.Strings(seen)
	want := m.sorted()
	if len(seen) != len(want) {
		return &Verdict{Clause: "C15.foreach", Key: "C15.foreach", Detail: fmt.Sprintf("after step %d (%s): ForEach reported %d sequences, the set has %d", step, who, len(seen), len(want)),
			Expected: quoteAll(want), Observed: quoteAll(seen)}
	}
	for i := range seen {
		if seen[i] != want[i] {
			return &Verdict{Clause: "C15.foreach", Key: "C15.foreach", Detail: fmt.Sprintf("after step %d (%s): ForEach reported %q, expected %q", step, who, seen[i], want[i]),
				Expected: quoteAll(want), Observed: quoteAll(seen)}
		}
	}
	return nil
}

type trieTrace struct {
	states map[uint64]struct{}
	trans  map[uint64]struct{}
	probes core.Stats
}

func execC15(c *Case) *Verdict { return execC15Trace(c, nil) }

func execC15Trace(c *Case, tr *trieTrace) (v *Verdict) {
	tc := c.Trie
	defer func() {
		if r := recover(); r != nil {
			v = &Verdict{Clause: "C15.panic", Key: "C15.panic", Detail: fmt.Sprint("panic: ", r)}
		}
	}()
	setKeyOrder(tc.KeyOrder)
	defer setKeyOrder(nil)
	uni := tc.universe()
	t := trie.New()
	m := setModel{}
	if v := observeTrie(t, m, uni, -1, "empty trie"); v != nil {
		return v
	}
	stateHash := func() uint64 { return core.HashString(strings.Join(m.sorted(), "\x00|")) }
	shared := make([]byte, 0, 256) // the caller's long-lived buffer
	var held [][]byte              // JSON forms obtained earlier and still held by the caller
	for i, op := range tc.Ops {
		before := uint64(0)
		if tr != nil {
			before = stateHash()
		}
		switch op.Op {
		case "fanout":
			// 256 Adds: every byte value appended to the prefix (one observation afterwards)
			for b := 0; b < 256; b++ {
				x := byte(b*167 + 13) // a fixed permutation of the byte values
				w := append(append([]byte{}, op.Arg...), x)
				t.Add(w)
				m.add(w)
			}
			if tr != nil {
				tr.probes.Inc("probe/node_with_all_256_children")
			}
		case "add", "del":
			buf := append([]byte{}, op.Arg...)
			if op.Reuse && len(op.Arg) <= cap(shared) {
				buf = append(shared[:0], op.Arg...) // same backing array as the previous reused argument
				if tr != nil {
					tr.probes.Inc("fault_fired/caller_buffer_reused_for_next_argument")
				}
			}
			if op.Op == "add" {
				t.Add(buf)
				m.add(op.Arg)
			} else {
				if len(op.Arg) == 0 {
					continue // outside the property's domain
				}
				nBefore := len(m)
				got := t.Delete(buf)
				want := m.del(op.Arg)
				if got != want {
					return &Verdict{Clause: "C15.delete-result", Key: "C15.delete-result",
						Detail: fmt.Sprintf("step %d: Delete(%q) returned %v, model says %v", i, op.Arg, got, want), Expected: quoteAll(m.sorted())}
				}
				if tr != nil && want {
					tr.probes.Inc("probe/delete_hit")
					if len(m) == 0 {
						tr.probes.Inc("probe/delete_emptied_the_trie")
					}
					if nBefore-len(m) > 1 {
						tr.probes.Inc("probe/delete_removed_several_members")
					}
				}
			}
			if op.Scribble {
				for j := range buf {
					buf[j] = 0xAA ^ byte(j)
				}
				if tr != nil {
					tr.probes.Inc("fault_fired/caller_buffer_scribbled")
				}
			}
		case "churn":
			// many short-lived members: N fillers under a prefix nothing else uses are added and
			// deleted again (every Delete succeeds); the set is unchanged afterwards. Counters
			// and pools inside an implementation see N+N calls.
			for k := 0; k < op.N; k++ {
				t.Add([]byte{0xFD, byte(k >> 16), byte(k >> 8), byte(k)})
			}
			for k := 0; k < op.N; k++ {
				if !t.Delete([]byte{0xFD, byte(k >> 16), byte(k >> 8), byte(k)}) {
					return &Verdict{Clause: "C15.delete-result", Key: "C15.delete-result", Detail: fmt.Sprintf("step %d: Delete of filler %d of %d returned false", i, k, op.N)}
				}
			}
			// model: a member that is a prefix of a filler was absorbed by it, a member that a
			// filler is a prefix of was deleted with it; everything else is untouched
			for x := range m {
				if len(x) == 0 || x[0] != 0xFD {
					continue
				}
				k, sh := 0, 16
				for j := 1; j < len(x) && j < 4; j++ {
					k |= int(x[j]) << sh
					sh -= 8
				}
				if k < op.N {
					delete(m, x)
				}
			}
			if tr != nil {
				tr.probes.Inc("fault_fired/churn_of_many_short_lived_members")
			}
		case "restart", "restart0", "restartm", "restarti", "restarte":
			var data []byte
			var err error
			if op.Op == "restartm" {
				// the exported method called directly, its result held while it is called again
				// (on this trie and on an unrelated one) before the first result is used
				data, err = t.MarshalJSON()
				if err == nil {
					other := trie.New()
					other.Add([]byte("zzzzzzzzzzzzzzzzzzzzzzzzzzzzzzzzzzzzzzzzzzzzzzzzzzzzzzzzzzzzzzzz"))
					other.MarshalJSON()
					second, err2 := t.MarshalJSON()
					if err2 != nil {
						err = err2
					}
					held = append(held, second)
					if tr != nil {
						tr.probes.Inc("fault_fired/json_form_held_across_later_marshal_calls")
					}
				}
			} else if op.Op == "restarti" {
				// the JSON form as encoding/json re-indents it (tabs, or spaces and CRLF-free newlines)
				data, err = json.MarshalIndent(t, "", []string{"\t", "  "}[i%2])
			} else if op.Op == "restarte" {
				// the trie as a field of an enclosing document
				var doc []byte
				doc, err = json.MarshalIndent(map[string]any{"name": "x", "trie": t, "z": []int{1}}, " ", "\t")
				if err == nil {
					var back struct {
						Trie json.RawMessage `json:"trie"`
					}
					if err = json.Unmarshal(doc, &back); err == nil {
						data = back.Trie
					}
				}
			} else {
				data, err = json.Marshal(t)
			}
			if err != nil {
				return &Verdict{Clause: "C15.json", Key: "C15.json", Detail: fmt.Sprintf("step %d: MarshalJSON failed: %v", i, err)}
			}
			var t2 *trie.Trie
			if op.Op != "restart0" {
				t2 = trie.New()
			} else {
				t2 = &trie.Trie{}
			}
			if err := json.Unmarshal(data, t2); err != nil {
				return &Verdict{Clause: "C15.json", Key: "C15.json", Detail: fmt.Sprintf("step %d: UnmarshalJSON(%s) failed: %v", i, data, err)}
			}
			// side by side: the original is untouched by marshalling
			if v := observeTrie(t, m, uni, i, "original after MarshalJSON"); v != nil {
				return v
			}
			if v := observeTrie(t2, m, uni, i, "rebuilt from JSON"); v != nil {
				v.Clause, v.Key = "C15.json", "C15.json"
				return v
			}
			// a second generation must give the same JSON set too (stability of the durable form)
			t = t2
			if tr != nil {
				tr.probes.Inc("fault_fired/restart_from_json")
				if len(m) == 0 {
					tr.probes.Inc("probe/restart_on_empty_trie")
				}
				if len(m) == 1 {
					tr.probes.Inc("probe/restart_on_single_member")
				}
				if i > 0 && tc.Ops[i-1].Op == "del" {
					tr.probes.Inc("probe/restart_right_after_delete")
				}
			}
		default:
			panic("bad trie op " + op.Op)
		}
		if op.PanicAt > 0 {
			// a callback that panics; the caller recovers and carries on with the same trie
			func() {
				defer func() { recover() }()
				n := 0
				t.ForEach(func([]byte) bool {
					n++
					if n == op.PanicAt {
						panic("consumer panic")
					}
					return n <= len(m)+1000
				})
			}()
			if tr != nil {
				tr.probes.Inc("fault_fired/foreach_callback_panicked_and_was_recovered")
			}
		}
		if op.Quiet && i != len(tc.Ops)-1 {
			if tr != nil {
				tr.probes.Inc("fault_fired/step_left_unobserved")
			}
			continue
		}
		if v := observeTrie(t, m, uni, i, op.Op); v != nil {
			return v
		}
		if op.Nested > 0 {
			if v := nestedForEach(t, m, op.Nested-1, i); v != nil {
				return v
			}
			if tr != nil {
				tr.probes.Inc("fault_fired/foreach_nested_in_foreach")
			}
		}
		if tr != nil {
			after := stateHash()
			tr.states[after] = struct{}{}
			tr.trans[core.SplitMix64(before)^core.HashString(op.Op+string(op.Arg))] = struct{}{}
		}
	}
	return nil
}

func shrinkTrie(c *Case, try func(*Case) bool) bool {
	if c.Trie == nil {
		return false
	}
	any := false
	for i := 0; i < len(c.Trie.Ops); {
		d := c.Clone()
		d.Trie.Ops = append(d.Trie.Ops[:i], d.Trie.Ops[i+1:]...)
		if try(d) {
			any = true
			continue
		}
		i++
	}
	for i := 0; i < len(c.Trie.Ops); i++ {
		if c.Trie.Ops[i].Scribble {
			d := c.Clone()
			d.Trie.Ops[i].Scribble = false
			if try(d) {
				any = true
			}
		}
		for len(c.Trie.Ops[i].Arg) > 1 {
			d := c.Clone()
			d.Trie.Ops[i].Arg = d.Trie.Ops[i].Arg[:len(d.Trie.Ops[i].Arg)-1]
			if !try(d) {
				break
			}
			any = true
		}
		if o := c.Trie.Ops[i].Op; o == "restart0" || o == "restartm" || o == "restarti" || o == "restarte" {
			d := c.Clone()
			d.Trie.Ops[i].Op = "restart"
			if try(d) {
				any = true
			}
		}
		if c.Trie.Ops[i].Reuse {
			d := c.Clone()
			d.Trie.Ops[i].Reuse = false
			if try(d) {
				any = true
			}
		}
		if c.Trie.Ops[i].Nested > 0 {
			d := c.Clone()
			d.Trie.Ops[i].Nested = 0
			if try(d) {
				any = true
			}
		}
		if c.Trie.Ops[i].PanicAt > 0 {
			d := c.Clone()
			d.Trie.Ops[i].PanicAt = 0
			if try(d) {
				any = true
			}
		}
		if c.Trie.Ops[i].Quiet {
			d := c.Clone()
			d.Trie.Ops[i].Quiet = false
			if try(d) {
				any = true
			}
		}
	}
	if c.Trie.KeyOrder != nil && c.Trie.KeyOrder.Mode != "sorted" {
		d := c.Clone()
		d.Trie.KeyOrder = &KeyOrder{Mode: "sorted"}
		if try(d) {
			any = true
		}
	}
	// letters -> 'a', 'b', ...
	for _, from := range c.Trie.Alphabet {
		for _, to := range []byte("ab") {
			if from == to || bytes.IndexByte(c.Trie.Alphabet, to) >= 0 {
				continue
			}
			d := c.Clone()
			for i := range d.Trie.Alphabet {
				if d.Trie.Alphabet[i] == from {
					d.Trie.Alphabet[i] = to
				}
			}
			for i := range d.Trie.Ops {
				for j := range d.Trie.Ops[i].Arg {
					if d.Trie.Ops[i].Arg[j] == from {
						d.Trie.Ops[i].Arg[j] = to
					}
				}
			}
			if try(d) {
				any = true
				break
			}
		}
	}
	return any
}

var trieAlphabets = []string{"ab", "abc", "ab\x00", "a\xff\"", "abcd", "\x00\x01\xfe\xff", "ab{}\\\"", "abcdef"}

func genTrieCase(r *core.Rng, depth int) *TrieCase {
	tc := &TrieCase{Alphabet: []byte(core.Pick(r, trieAlphabets)), MaxLen: core.Pick(r, []int{2, 3, 3, 4, 4, 8, 8, 20, 40, 70})}
	tc.KeyOrder = genKeyOrder(r)
	pDel := 0.15 + 0.4*r.Float64()
	pRestart := 0.05 + 0.2*r.Float64()
	pScribble := r.Float64() * 0.6
	pReuse := 0.0
	if r.Chance(0.4) {
		pReuse = 0.3 + 0.7*r.Float64()
	}
	fanout := r.Chance(0.02) // one node with all 256 children
	churn := r.Chance(0.004) // counters that wrap, pools that fill: tens of thousands of short-lived members
	pNested := 0.0
	if r.Chance(0.3) {
		pNested = 0.3
	}
	pPanic, pQuiet := 0.0, 0.0
	if r.Chance(0.15) {
		pPanic = 0.2
	}
	if r.Chance(0.3) {
		pQuiet = 0.3 + 0.5*r.Float64()
	}
	var words [][]byte
	n := r.Range(1, depth)
	for i := 0; i < n; i++ {
		x := r.Float64()
		switch {
		case x < pRestart:
			op := core.Pick(r, []string{"restart", "restart", "restart0", "restartm", "restarti", "restarte"})
			tc.Ops = append(tc.Ops, TrieOp{Op: op})
		default:
			var w []byte
			// bias towards prefixes / extensions / siblings of earlier words
			if len(words) > 0 && r.Chance(0.6) {
				base := words[r.Intn(len(words))]
				switch r.Intn(3) {
				case 0:
					w = append([]byte{}, base[:r.Intn(len(base)+1)]...)
				case 1:
					w = append(append([]byte{}, base...), r.Bytes(r.Range(1, 2), string(tc.Alphabet))...)
				default:
					w = append([]byte{}, base...)
					if len(w) > 0 {
						w[len(w)-1] = tc.Alphabet[r.Intn(len(tc.Alphabet))]
					}
				}
				if len(w) > tc.MaxLen {
					w = w[:tc.MaxLen]
				}
			} else {
				w = r.Bytes(r.Range(0, tc.MaxLen), string(tc.Alphabet))
			}
			op := "add"
			if x < pRestart+pDel && len(w) > 0 {
				op = "del"
			}
			if len(w) > 0 {
				words = append(words, w)
			}
			o := TrieOp{Op: op, Arg: w, Scribble: r.Chance(pScribble), Reuse: r.Chance(pReuse)}
			if r.Chance(pNested) {
				o.Nested = 1 + r.Intn(4)
			}
			if r.Chance(pPanic) {
				o.PanicAt = 1 + r.Intn(3)
			}
			o.Quiet = r.Chance(pQuiet)
			tc.Ops = append(tc.Ops, o)
			if churn && r.Chance(0.25) {
				tc.Ops = append(tc.Ops, TrieOp{Op: "churn", N: core.Pick(r, []int{255, 256, 257, 65535, 65536, 65536, 65537})})
				tc.MaxLen = 70
			}
		}
		if fanout && i == n/2 {
			// every byte value under one prefix: a node with the maximal number of children
			var p []byte
			if len(words) > 0 {
				p = words[r.Intn(len(words))]
				p = p[:r.Intn(len(p)+1)]
			}
			tc.Ops = append(tc.Ops, TrieOp{Op: "fanout", Arg: append([]byte{}, p...)})
			tc.MaxLen = 70 // the universe is then derived from the arguments, not enumerated
		}
	}
	return tc
}

// RunC15 is one simulated run: one seeded history (or, for the first runs, a
// slice of the fixed exhaustive sweep).
func RunC15(ctx *core.Ctx, r *core.Rng) {
	Noise(ctx, r)
	hookBase := keyOrderTotal
	tr := &trieTrace{states: map[uint64]struct{}{}, trans: map[uint64]struct{}{}, probes: ctx.Stats}
	sweepSlices := trieSweepSlices(ctx.Tier)
	if ctx.Run() < sweepSlices {
		runC15Sweep(ctx, tr, ctx.Run())
		return
	}
	depth := 12
	if ctx.Tier == "thorough" {
		depth = core.Pick(r, []int{12, 30, 60})
	}
	hist := 4
	for h := 0; h < hist; h++ {
		tc := genTrieCase(r, depth)
		c := &Case{Clause: "C15", Trie: tc}
		v := execC15Trace(c, tr)
		ctx.Eval()
		ctx.EvS(tc.String())
		ctx.Stats.Add("history_steps", int64(len(tc.Ops)))
		if v != nil {
			ctx.EvS(v.Key)
			report(ctx, c, v)
		}
		if ctx.Run() < sweepSlices+32 && h == 0 {
			ctx.Sample(map[string]any{"history": tc.String(), "observed_strings_per_step": len(tc.universe())})
		}
	}
	for s := range tr.states {
		ctx.Seen(s)
	}
	ctx.Stats.Add("distinct_transitions_upper_bound", int64(len(tr.trans)))
	ctx.Stats.Add("keyorder_hook_calls", int64(keyOrderTotal-hookBase))
}

// The fixed sweeps. Every step of a history is observed, so the histories of
// depth d contain all shorter ones as prefixes.
//
//	quick:    all 14^4 = 38 416 histories of depth 4 over 14 operations on {a,b}
//	          (add/del of a, b, aa, ab, ba, bb; restart; add of the empty sequence);
//	thorough: depth 5 over the same 14 operations (537 824 histories) and depth 4 over
//	          the 26 operations on {a,b,c} with sequences of length <= 2 (456 976).
type trieSweep struct {
	ops    []TrieOp
	alpha  string
	depth  int
	prefix int // how many leading operations a slice fixes
}

func sweepOpsOver(alpha string) []TrieOp {
	var words []string
	for _, a := range alpha {
		words = append(words, string(a))
	}
	for _, a := range alpha {
		for _, b := range alpha {
			words = append(words, string(a)+string(b))
		}
	}
	var ops []TrieOp
	for _, w := range words {
		ops = append(ops, TrieOp{Op: "add", Arg: []byte(w)}, TrieOp{Op: "del", Arg: []byte(w)})
	}
	return append(ops, TrieOp{Op: "restart"}, TrieOp{Op: "add", Arg: []byte{}})
}

var (
	sweepQuick    = []trieSweep{{sweepOpsOver("ab"), "ab", 4, 1}}
	sweepThorough = []trieSweep{{sweepOpsOver("ab"), "ab", 5, 2}, {sweepOpsOver("abc"), "abc", 4, 2}}
)

func (sw trieSweep) slices() int {
	n := 1
	for i := 0; i < sw.prefix; i++ {
		n *= len(sw.ops)
	}
	return n
}

func trieSweeps(tier string) []trieSweep {
	if tier == "thorough" {
		return sweepThorough
	}
	return sweepQuick
}

func trieSweepSlices(tier string) int {
	n := 0
	for _, sw := range trieSweeps(tier) {
		n += sw.slices()
	}
	return n
}

func runC15Sweep(ctx *core.Ctx, tr *trieTrace, slice int) {
	var sw trieSweep
	for _, x := range trieSweeps(ctx.Tier) {
		if slice < x.slices() {
			sw = x
			break
		}
		slice -= x.slices()
	}
	n := len(sw.ops)
	idx := make([]int, sw.depth)
	for i, s := sw.prefix-1, slice; i >= 0; i-- {
		idx[i] = s % n
		s /= n
	}
	count := 0
	for {
		ops := make([]TrieOp, sw.depth)
		sum := 0
		for i, k := range idx {
			ops[i] = sw.ops[k]
			sum += k
		}
		tc := &TrieCase{Alphabet: []byte(sw.alpha), MaxLen: 2, Ops: ops,
			KeyOrder: &KeyOrder{Mode: []string{"sorted", "reversed", "perm"}[sum%3], Seed: uint64(count)}}
		c := &Case{Clause: "C15", Trie: tc}
		v := execC15Trace(c, tr)
		ctx.Eval()
		count++
		if v != nil {
			ctx.EvS(v.Key)
			report(ctx, c, v)
		}
		// next combination of the free positions
		i := sw.depth - 1
		for ; i >= sw.prefix; i-- {
			idx[i]++
			if idx[i] < n {
				break
			}
			idx[i] = 0
		}
		if i < sw.prefix {
			break
		}
	}
	ctx.EvU(uint64(slice), uint64(count))
	ctx.Stats.Add(fmt.Sprintf("exhaustive/sweep_histories_depth%d_over_%s", sw.depth, sw.alpha), int64(count))
	for s := range tr.states {
		ctx.Seen(s)
	}
}
