//go:build verif

package props

import "github.com/fluhus/biostuff/trie"

func init() {
	trie.SimKeyOrder = applyKeyOrder
	HookCompiled = true
}
