// Command dst is the deterministic-simulation driver: it fans a property's
// runs out over shard processes, merges their results, writes the evidence
// file and prints VIOLATION / KNOWN-FINDING lines. See DESIGN.md.
package main

import (
	"bufio"
	"encoding/json"
	"fmt"
	"os"
	"os/exec"
	"path/filepath"
	"runtime/pprof"
	"sort"
	"strconv"
	"strings"
	"time"

	"verif/core"
	"verif/props"
)

func usage() {
	fmt.Fprintln(os.Stderr, `usage:
  dst check <property> <quick|thorough>     (env: VERIF_SEED, VERIF_SHARDS, VERIF_RUNS, VERIF_ROOT)
  dst shard <property> <tier> <k> <n> <runs> <out>
  dst replay <file>
  dst hashes <property> <tier> <runs>       print per-run event-log hashes (determinism self-test)`)
	os.Exit(core.ExitTrouble)
}

func main() {
	if len(os.Args) < 2 {
		usage()
	}
	switch os.Args[1] {
	case "check":
		if len(os.Args) != 4 {
			usage()
		}
		os.Exit(check(os.Args[2], os.Args[3]))
	case "shard":
		if len(os.Args) != 8 {
			usage()
		}
		os.Exit(shard(os.Args[2:]))
	case "replay":
		if len(os.Args) != 3 {
			usage()
		}
		os.Exit(replay(os.Args[2]))
	case "hashes":
		if len(os.Args) != 5 {
			usage()
		}
		os.Exit(hashes(os.Args[2], os.Args[3], os.Args[4]))
	default:
		usage()
	}
}

func envInt(name string, def int) int {
	if s := os.Getenv(name); s != "" {
		if n, err := strconv.Atoi(s); err == nil {
			return n
		}
		fmt.Fprintf(os.Stderr, "dst: bad %s=%q\n", name, s)
		os.Exit(core.ExitTrouble)
	}
	return def
}

func envSeed() uint64 {
	if s := os.Getenv("VERIF_SEED"); s != "" {
		n, err := strconv.ParseUint(s, 10, 64)
		if err != nil {
			if m, err2 := strconv.ParseInt(s, 10, 64); err2 == nil {
				return uint64(m)
			}
			fmt.Fprintf(os.Stderr, "dst: bad VERIF_SEED=%q\n", s)
			os.Exit(core.ExitTrouble)
		}
		return n
	}
	return 1
}

func root() string {
	if r := os.Getenv("VERIF_ROOT"); r != "" {
		return r
	}
	wd, _ := os.Getwd()
	return wd
}

// runShardLoop executes the runs of one shard in this process.
func runShardLoop(ctx *core.Ctx, meta *props.Meta, runs int) {
	slow := time.Duration(envInt("VERIF_SLOWRUN_MS", 0)) * time.Millisecond
	only := envInt("VERIF_ONLY_RUN", -1)
	for i := ctx.Shard; i < runs; i += ctx.Shards {
		if only >= 0 && i != only {
			continue
		}
		t0 := time.Now()
		if slow > 0 && os.Getenv("VERIF_ANNOUNCE_RUNS") != "" {
			fmt.Fprintf(os.Stderr, "dst: run %d starts\n", i)
		}
		r := ctx.BeginRun(i)
		meta.Run(ctx, r)
		ctx.EndRun()
		if d := time.Since(t0); slow > 0 && d > slow { // diagnostics only: never influences a choice or the event log
			fmt.Fprintf(os.Stderr, "dst: slow run %d: %v\n", i, d)
		}
	}
}

func shard(a []string) int {
	prop, tier := a[0], a[1]
	k, _ := strconv.Atoi(a[2])
	n, _ := strconv.Atoi(a[3])
	runs, _ := strconv.Atoi(a[4])
	out := a[5]
	meta := props.Metas[prop]
	if meta == nil {
		fmt.Fprintln(os.Stderr, "dst: unknown property", prop)
		return core.ExitTrouble
	}
	// Safety net only: a wall-clock watchdog that exits 2, never VIOLATION.
	limit := 25 * time.Minute
	if tier == "thorough" {
		limit = 8 * time.Hour
	}
	ctx := core.NewCtx(prop, tier, envSeed())
	t0 := time.Now()
	go func() {
		time.Sleep(limit)
		// The code under test spins without touching a simulated seam (or the machine is
		// far too slow). That is trouble, not a verdict; but what this shard already found
		// is real and is handed over before giving up.
		fmt.Fprintf(os.Stderr, "dst: shard %d watchdog fired after %v in run %d (exit 2 unless violations were found)\n", k, limit, ctx.Run())
		ctx.WriteShard(out, time.Since(t0).Seconds())
		os.Exit(core.ExitTrouble)
	}()
	ctx.Shard, ctx.Shards = k, n
	ctx.ReplayDir = filepath.Join(root(), "replays")
	if t := os.Getenv("VERIF_TRACE"); t != "" {
		f, err := os.Create(fmt.Sprintf("%s.%d", t, k))
		if err == nil {
			ctx.Trace = f
			defer f.Close()
		}
	}
	if meta.Setup != nil {
		if err := meta.Setup(ctx); err != nil {
			fmt.Fprintln(os.Stderr, "dst: setup:", err)
			return core.ExitTrouble
		}
	}
	runShardLoop(ctx, meta, runs)
	if err := ctx.WriteShard(out, time.Since(t0).Seconds()); err != nil {
		fmt.Fprintln(os.Stderr, "dst:", err)
		return core.ExitTrouble
	}
	return core.ExitOK
}

type known struct {
	kind, prop, key, text string
}

func readKnown(path string) []known {
	f, err := os.Open(path)
	if err != nil {
		return nil
	}
	defer f.Close()
	var out []known
	sc := bufio.NewScanner(f)
	for sc.Scan() {
		line := strings.TrimSpace(sc.Text())
		if line == "" || strings.HasPrefix(line, "#") {
			continue
		}
		kind, rest, ok := strings.Cut(line, ":")
		if !ok {
			continue
		}
		k := known{kind: strings.TrimSpace(kind)}
		fields := strings.Fields(rest)
		var text []string
		for _, f := range fields {
			switch {
			case strings.HasPrefix(f, "property=") && k.prop == "":
				k.prop = strings.TrimPrefix(f, "property=")
			case strings.HasPrefix(f, "key=") && k.key == "":
				k.key = strings.TrimPrefix(f, "key=")
			default:
				text = append(text, f)
			}
		}
		k.text = strings.Join(text, " ")
		out = append(out, k)
	}
	return out
}

func check(prop, tier string) int {
	meta := props.Metas[prop]
	if meta == nil {
		fmt.Fprintln(os.Stderr, "dst: unknown property", prop)
		return core.ExitTrouble
	}
	if tier != "quick" && tier != "thorough" {
		fmt.Fprintln(os.Stderr, "dst: unknown tier", tier)
		return core.ExitTrouble
	}
	seed := envSeed()
	shards := envInt("VERIF_SHARDS", 16)
	runs := meta.Runs[tier]
	runs = envInt("VERIF_RUNS", runs)
	rt := root()
	scratch, err := os.MkdirTemp("", "dst-"+prop+"-")
	if err != nil {
		fmt.Fprintln(os.Stderr, "dst:", err)
		return core.ExitTrouble
	}
	defer os.RemoveAll(scratch)
	self, _ := os.Executable()
	fmt.Printf("dst: property=%s tier=%s VERIF_SEED=%d runs=%d shards=%d\n", prop, tier, seed, runs, shards)
	t0 := time.Now()
	cmds := make([]*exec.Cmd, shards)
	outs := make([]string, shards)
	for k := 0; k < shards; k++ {
		dir := filepath.Join(scratch, fmt.Sprintf("s%d", k))
		os.MkdirAll(dir, 0o755)
		outs[k] = filepath.Join(scratch, fmt.Sprintf("shard%d.json", k))
		c := exec.Command(self, "shard", prop, tier, strconv.Itoa(k), strconv.Itoa(shards), strconv.Itoa(runs), outs[k])
		c.Dir = dir // the shard's working directory is its simulated disk
		c.Env = append(os.Environ(), "VERIF_ROOT="+rt, fmt.Sprintf("VERIF_SEED=%d", seed), "GOMAXPROCS=2")
		c.Stdout = os.Stdout
		c.Stderr = os.Stderr
		if err := c.Start(); err != nil {
			fmt.Fprintln(os.Stderr, "dst:", err)
			return core.ExitTrouble
		}
		cmds[k] = c
	}
	trouble := false
	for k, c := range cmds {
		if err := c.Wait(); err != nil {
			fmt.Fprintf(os.Stderr, "dst: shard %d: %v\n", k, err)
			trouble = true
		}
	}
	wall := time.Since(t0).Seconds()

	// Merge in shard order (shards hold disjoint run indices; everything merged is a sum, a set union or sorted).
	stats := core.Stats{}
	clauseCount := map[string]int64{}
	distinct := map[uint64]struct{}{}
	var evals int64
	totalRuns := 0
	var viols []*core.Violation
	type sampleAt struct {
		run int
		v   any
	}
	var samples []any
	hashAll := uint64(0)
	for k := range outs {
		data, err := os.ReadFile(outs[k])
		if err != nil {
			if trouble {
				continue // that shard died without handing anything over
			}
			fmt.Fprintln(os.Stderr, "dst:", err)
			return core.ExitTrouble
		}
		var sr core.ShardResult
		if err := json.Unmarshal(data, &sr); err != nil {
			fmt.Fprintln(os.Stderr, "dst:", err)
			return core.ExitTrouble
		}
		evals += sr.Evals
		totalRuns += sr.Runs
		for n, v := range sr.Stats {
			stats[n] += v
		}
		for n, v := range sr.ClauseCount {
			clauseCount[n] += v
		}
		viols = append(viols, sr.Violations...)
		if len(samples) < 6 {
			for _, s := range sr.Samples {
				if len(samples) < 6 {
					samples = append(samples, s)
				}
			}
		}
		hashAll ^= sr.HashAll
		if err := core.ReadDistinct(outs[k]+".distinct", distinct); err != nil {
			fmt.Fprintln(os.Stderr, "dst:", err)
			return core.ExitTrouble
		}
	}

	// One violation per clause key: the one from the lowest run index.
	sort.SliceStable(viols, func(i, j int) bool { return viols[i].Run < viols[j].Run })
	seen := map[string]bool{}
	kn := readKnown(filepath.Join(rt, "KNOWN_FINDINGS.txt"))
	nviol := 0
	knownHit := 0
	for _, v := range viols {
		if seen[v.Key] {
			continue
		}
		seen[v.Key] = true
		isKnown := false
		for _, k := range kn {
			if k.kind == "finding" && k.prop == prop && k.key == v.Key {
				fmt.Printf("KNOWN-FINDING: property=%s key=%s %s\n", prop, v.Key, k.text)
				isKnown = true
				knownHit++
			}
		}
		if isKnown {
			continue
		}
		nviol++
		fmt.Printf("VIOLATION property=%s replay=%s\n", prop, v.ReplayPath)
		fmt.Printf("  clause=%s key=%s run=%d occurrences=%d shrunk %d->%d in %d executions\n  %s\n  case: %s\n",
			v.Clause, v.Key, v.Run, clauseCount[v.Key], v.OrigSize, v.MinSize, v.ShrinkExec, v.Detail, v.CaseText)
	}

	// Evidence.
	faults := map[string]int64{}
	probes := map[string]int64{}
	skipped := map[string]int64{}
	for n, v := range stats {
		switch {
		case strings.HasPrefix(n, "fault_fired/"):
			faults[strings.TrimPrefix(n, "fault_fired/")] = v
		case strings.HasPrefix(n, "skipped"):
			skipped[n] = v
		default:
			probes[n] = v
		}
	}
	hours := wall / 3600
	cov := map[string]any{
		"evaluations":             evals,
		"distinct_nontrivial":     len(distinct),
		"rule":                    meta.Rule,
		"samples":                 samples,
		"simulated_runs":          totalRuns,
		"simulated_runs_per_hour": int64(float64(totalRuns) / hours),
		"executions_per_hour":     int64(float64(evals) / hours),
		"seeds":                   fmt.Sprintf("VERIF_SEED=%d; run i uses splitmix(VERIF_SEED, property, i), i in [0,%d)", seed, runs),
		"faults_fired":            faults,
		"probes":                  probes,
		"skipped":                 skipped,
		"simulated_time":          "not applicable: no code under test reads a clock; steps (Read/Write calls, yields, operations) are counted instead",
		"components":              meta.Components,
		"event_log_hash":          fmt.Sprintf("%016x", hashAll),
		"shards":                  shards,
		"violations_by_clause":    clauseCount,
		"known_findings_matched":  knownHit,
	}
	if prop == "C16" {
		switch {
		case props.NewIndexInst != nil:
			cov["statement_granular_phase"] = fmt.Sprintf("ran on the instrumented scratch copy of regions/ (%d yield sites)", len(props.SiteFuncs))
		case os.Getenv("VERIF_C16_NOSTMT") != "":
			cov["statement_granular_phase"] = "NOT RUN, operation granularity only: " + os.Getenv("VERIF_C16_NOSTMT")
		default:
			cov["statement_granular_phase"] = "NOT RUN: this binary does not link the instrumented copy (use ./check C16, which builds it)"
		}
	}
	ev := map[string]any{
		"property_id": prop,
		"tier":        tier,
		"seed":        seed,
		"level":       meta.Level,
		"coverage":    cov,
		"assumptions": meta.Assumptions,
		"wall_s":      wall,
		"violations":  nviol,
	}
	data, _ := json.MarshalIndent(ev, "", " ")
	os.MkdirAll(filepath.Join(rt, "evidence"), 0o755)
	if err := os.WriteFile(filepath.Join(rt, "evidence", prop+".json"), append(data, '\n'), 0o644); err != nil {
		fmt.Fprintln(os.Stderr, "dst:", err)
		return core.ExitTrouble
	}
	fmt.Printf("dst: %s %s: runs=%d executions=%d distinct=%d violations=%d known=%d wall=%.1fs loghash=%016x\n",
		prop, tier, totalRuns, evals, len(distinct), nviol, knownHit, wall, hashAll)
	if nviol > 0 {
		return core.ExitViolation // real even if some shard got into trouble afterwards
	}
	if trouble {
		fmt.Fprintln(os.Stderr, "dst: a shard ended in trouble (watchdog or crash) and no violation was found: exit 2, not a verdict")
		return core.ExitTrouble
	}
	return core.ExitOK
}

func replay(path string) int {
	data, err := os.ReadFile(path)
	if err != nil {
		fmt.Fprintln(os.Stderr, "dst:", err)
		return core.ExitTrouble
	}
	var v core.Violation
	if err := json.Unmarshal(data, &v); err != nil {
		fmt.Fprintln(os.Stderr, "dst:", err)
		return core.ExitTrouble
	}
	var c props.Case
	if err := json.Unmarshal(v.Case, &c); err != nil {
		fmt.Fprintln(os.Stderr, "dst:", err)
		return core.ExitTrouble
	}
	abs, _ := filepath.Abs(path)
	scratch, err := os.MkdirTemp("", "dst-replay-")
	if err != nil {
		fmt.Fprintln(os.Stderr, "dst:", err)
		return core.ExitTrouble
	}
	defer os.RemoveAll(scratch)
	os.Chdir(scratch)
	if meta := props.Metas[v.Property]; meta != nil && meta.Setup != nil {
		ctx := core.NewCtx(v.Property, "replay", v.VerifSeed)
		if err := meta.Setup(ctx); err != nil {
			fmt.Fprintln(os.Stderr, "dst: setup:", err)
			return core.ExitTrouble
		}
	}
	got := props.Exec(&c)
	if got == nil && v.Shards > 0 && props.Metas[v.Property] != nil {
		// Re-run the run sequence of the shard that found it: same seed, tier and shard
		// layout give the same process history, including any package-level state of the
		// code under test.
		meta := props.Metas[v.Property]
		ctx := core.NewCtx(v.Property, v.Tier, v.VerifSeed)
		ctx.Shard, ctx.Shards = v.Shard, v.Shards
		fmt.Printf("replay: the case alone shows no violation; re-running runs %d, %d, ... %d of shard %d/%d\n", v.Shard, v.Shard+v.Shards, v.Run, v.Shard, v.Shards)
		runShardLoop(ctx, meta, v.Run+1)
		for _, w := range ctx.Violations {
			if w.Key == v.Key && w.Run == v.Run {
				fmt.Printf("VIOLATION property=%s replay=%s\n  clause=%s key=%s run=%d\n  %s\n  (reproduced by re-running the shard's run sequence: the violation depends on package-level state carried from case to case)\n",
					v.Property, abs, w.Clause, w.Key, w.Run, w.Detail)
				return core.ExitViolation
			}
		}
		for _, w := range ctx.Violations {
			if w.Key == v.Key {
				fmt.Printf("VIOLATION property=%s replay=%s\n  clause=%s key=%s run=%d (recorded run %d)\n  %s\n", v.Property, abs, w.Clause, w.Key, w.Run, v.Run, w.Detail)
				return core.ExitViolation
			}
		}
	}
	if got == nil {
		fmt.Printf("replay: property=%s clause=%s: no violation (the property holds on this case)\n", v.Property, v.Clause)
		return core.ExitOK
	}
	fmt.Printf("VIOLATION property=%s replay=%s\n  clause=%s key=%s\n  %s\n", v.Property, abs, got.Clause, got.Key, got.Detail)
	for _, s := range props.Clip(got.Expected, 12) {
		fmt.Println("  expected:", s)
	}
	for _, s := range props.Clip(got.Observed, 12) {
		fmt.Println("  observed:", s)
	}
	if got.Key != v.Key {
		fmt.Printf("  note: recorded key was %s\n", v.Key)
	}
	return core.ExitViolation
}

// hashes prints the per-run event-log hashes of a single in-process shard.
func hashes(prop, tier, runsS string) int {
	meta := props.Metas[prop]
	if meta == nil {
		return core.ExitTrouble
	}
	runs, _ := strconv.Atoi(runsS)
	scratch, err := os.MkdirTemp("", "dst-hashes-")
	if err != nil {
		return core.ExitTrouble
	}
	defer os.RemoveAll(scratch)
	os.Chdir(scratch)
	ctx := core.NewCtx(prop, tier, envSeed())
	ctx.Shard, ctx.Shards = envInt("VERIF_SHARD", 0), envInt("VERIF_SHARDS", 1)
	ctx.KeepRunHashes = true
	if meta.Setup != nil {
		if err := meta.Setup(ctx); err != nil {
			return core.ExitTrouble
		}
	}
	if pf := os.Getenv("VERIF_CPUPROFILE"); pf != "" {
		f, _ := os.Create(pf)
		pprof.StartCPUProfile(f)
		defer pprof.StopCPUProfile()
		if secs := envInt("VERIF_PROFILE_SECONDS", 0); secs > 0 { // profile a run that takes too long to wait for
			go func() {
				time.Sleep(time.Duration(secs) * time.Second)
				pprof.StopCPUProfile()
				f.Close()
				os.Exit(0)
			}()
		}
	}
	runShardLoop(ctx, meta, runs)
	idx := make([]int, 0, len(ctx.RunHashes))
	for i := range ctx.RunHashes {
		idx = append(idx, i)
	}
	sort.Ints(idx)
	for _, i := range idx {
		fmt.Printf("%d %016x\n", i, ctx.RunHashes[i])
	}
	fmt.Printf("evals %d distinct %d violations %d\n", ctx.Evals, len(ctx.Distinct), len(ctx.Violations))
	return core.ExitOK
}
