// Command inst copies the non-test Go files of a package directory into a
// scratch directory with a simrt.Yield(site) call inserted before every
// statement of every block, case clause and function literal, and with
// package sync replaced by the cooperative shims. Nothing else is changed.
//
//	inst <srcdir> <dstdir> <sites.go path> <tags>
//
// Exit 0: instrumented. Exit 3: the package uses goroutines or channels, which
// the one-runnable-goroutine scheduler does not model (reason on stdout).
package main

import (
	"fmt"
	"go/ast"
	"go/build"
	"go/parser"
	"go/printer"
	"go/token"
	"os"
	"path/filepath"
	"sort"
	"strconv"
	"strings"
)

var (
	siteFuncs   []string
	unsupported []string
)

func yieldStmt(fn string) ast.Stmt {
	id := len(siteFuncs)
	siteFuncs = append(siteFuncs, fn)
	return &ast.ExprStmt{X: &ast.CallExpr{
		Fun:  &ast.SelectorExpr{X: ast.NewIdent("simrt"), Sel: ast.NewIdent("Yield")},
		Args: []ast.Expr{&ast.BasicLit{Kind: token.INT, Value: strconv.Itoa(id)}},
	}}
}

type inst struct {
	fn    string
	nlits int
}

func (in *inst) list(stmts []ast.Stmt) []ast.Stmt {
	out := make([]ast.Stmt, 0, 2*len(stmts))
	for _, s := range stmts {
		in.stmt(s)
		out = append(out, yieldStmt(in.fn), s)
	}
	return out
}

func (in *inst) block(b *ast.BlockStmt) {
	if b != nil {
		b.List = in.list(b.List)
	}
}

// exprs instruments function literals inside expressions.
func (in *inst) exprs(n ast.Node) {
	if n == nil {
		return
	}
	ast.Inspect(n, func(x ast.Node) bool {
		switch v := x.(type) {
		case *ast.FuncLit:
			in.nlits++
			sub := &inst{fn: fmt.Sprintf("%s.func%d", in.fn, in.nlits)}
			sub.block(v.Body)
			return false
		case *ast.UnaryExpr:
			if v.Op == token.ARROW {
				unsupported = append(unsupported, "channel receive in "+in.fn)
			}
		case *ast.ChanType:
			unsupported = append(unsupported, "channel type in "+in.fn)
		}
		return true
	})
}

func (in *inst) stmt(s ast.Stmt) {
	switch v := s.(type) {
	case nil:
	case *ast.BlockStmt:
		in.block(v)
	case *ast.IfStmt:
		in.stmt(v.Init)
		in.exprs(v.Cond)
		in.block(v.Body)
		in.stmt(v.Else)
	case *ast.ForStmt:
		in.stmt(v.Init)
		in.exprs(v.Cond)
		in.stmt(v.Post)
		in.block(v.Body)
	case *ast.RangeStmt:
		in.exprs(v.X)
		in.block(v.Body)
	case *ast.SwitchStmt:
		in.stmt(v.Init)
		in.exprs(v.Tag)
		for _, c := range v.Body.List {
			cc := c.(*ast.CaseClause)
			for _, e := range cc.List {
				in.exprs(e)
			}
			cc.Body = in.list(cc.Body)
		}
	case *ast.TypeSwitchStmt:
		in.stmt(v.Init)
		in.stmt(v.Assign)
		for _, c := range v.Body.List {
			cc := c.(*ast.CaseClause)
			cc.Body = in.list(cc.Body)
		}
	case *ast.SelectStmt:
		unsupported = append(unsupported, "select statement in "+in.fn)
	case *ast.GoStmt:
		unsupported = append(unsupported, "go statement in "+in.fn)
	case *ast.SendStmt:
		unsupported = append(unsupported, "channel send in "+in.fn)
	case *ast.LabeledStmt:
		in.stmt(v.Stmt)
	case *ast.DeferStmt:
		in.exprs(v.Call)
	case *ast.ExprStmt:
		in.exprs(v.X)
	case *ast.AssignStmt:
		for _, e := range v.Lhs {
			in.exprs(e)
		}
		for _, e := range v.Rhs {
			in.exprs(e)
		}
	case *ast.ReturnStmt:
		for _, e := range v.Results {
			in.exprs(e)
		}
	case *ast.DeclStmt:
		in.exprs(v.Decl)
	case *ast.IncDecStmt:
		in.exprs(v.X)
	case *ast.BranchStmt, *ast.EmptyStmt:
	default:
		in.exprs(s)
	}
}

func main() {
	if len(os.Args) != 5 {
		fmt.Fprintln(os.Stderr, "usage: inst <srcdir> <dstdir> <sites.go> <tags>")
		os.Exit(2)
	}
	src, dst, sitesPath, tags := os.Args[1], os.Args[2], os.Args[3], os.Args[4]
	ctx := build.Default
	ctx.BuildTags = strings.Split(tags, ",")
	entries, err := os.ReadDir(src)
	if err != nil {
		fmt.Fprintln(os.Stderr, "inst:", err)
		os.Exit(2)
	}
	var names []string
	for _, e := range entries {
		n := e.Name()
		if e.IsDir() || !strings.HasSuffix(n, ".go") || strings.HasSuffix(n, "_test.go") {
			continue
		}
		ok, err := ctx.MatchFile(src, n)
		if err != nil {
			fmt.Fprintln(os.Stderr, "inst:", err)
			os.Exit(2)
		}
		if ok {
			names = append(names, n)
		}
	}
	sort.Strings(names)
	if err := os.MkdirAll(dst, 0o755); err != nil {
		fmt.Fprintln(os.Stderr, "inst:", err)
		os.Exit(2)
	}
	fset := token.NewFileSet()
	pkgName := ""
	for _, n := range names {
		f, err := parser.ParseFile(fset, filepath.Join(src, n), nil, parser.SkipObjectResolution)
		if err != nil {
			fmt.Fprintln(os.Stderr, "inst:", err)
			os.Exit(2)
		}
		pkgName = f.Name.Name
		f.Comments = nil
		f.Doc = nil
		usesSimrt := false
		for _, d := range f.Decls {
			switch v := d.(type) {
			case *ast.FuncDecl:
				v.Doc = nil
				if v.Body == nil || (v.Name.Name == "init" && v.Recv == nil) {
					continue
				}
				name := v.Name.Name
				if v.Recv != nil && len(v.Recv.List) > 0 {
					t := v.Recv.List[0].Type
					if st, ok := t.(*ast.StarExpr); ok {
						t = st.X
					}
					if id, ok := t.(*ast.Ident); ok {
						name = id.Name + "." + name
					}
				}
				(&inst{fn: name}).block(v.Body)
				usesSimrt = true
			case *ast.GenDecl:
				v.Doc = nil
				for _, sp := range v.Specs {
					switch s := sp.(type) {
					case *ast.ValueSpec:
						s.Doc, s.Comment = nil, nil
						in := &inst{fn: "pkgvar"}
						before := len(siteFuncs)
						for _, e := range s.Values {
							in.exprs(e)
						}
						if len(siteFuncs) > before {
							usesSimrt = true
						}
					case *ast.TypeSpec:
						s.Doc, s.Comment = nil, nil
						ast.Inspect(s.Type, func(x ast.Node) bool {
							if fl, ok := x.(*ast.Field); ok {
								fl.Doc, fl.Comment = nil, nil
							}
							if _, ok := x.(*ast.ChanType); ok {
								unsupported = append(unsupported, "channel type in type "+s.Name.Name)
							}
							return true
						})
					case *ast.ImportSpec:
						s.Doc, s.Comment = nil, nil
						if s.Path.Value == `"sync"` {
							s.Path.Value = `"verif/simrt/ssync"`
							if s.Name == nil {
								s.Name = ast.NewIdent("sync")
							}
						}
						if s.Path.Value == `"sort"` {
							s.Path.Value = `"verif/simrt/ssort"`
							if s.Name == nil {
								s.Name = ast.NewIdent("sort")
							}
						}
					}
				}
			}
		}
		if usesSimrt {
			imp := &ast.GenDecl{Tok: token.IMPORT, Specs: []ast.Spec{&ast.ImportSpec{Path: &ast.BasicLit{Kind: token.STRING, Value: `"verif/simrt"`}}}}
			f.Decls = append([]ast.Decl{imp}, f.Decls...)
		}
		out, err := os.Create(filepath.Join(dst, n))
		if err != nil {
			fmt.Fprintln(os.Stderr, "inst:", err)
			os.Exit(2)
		}
		// Print with a fresh file set: positions of the original nodes are kept only
		// relative to each other, inserted nodes have none.
		if err := printer.Fprint(out, fset, f); err != nil {
			fmt.Fprintln(os.Stderr, "inst:", err)
			os.Exit(2)
		}
		out.Close()
	}
	var b strings.Builder
	fmt.Fprintf(&b, "package main\n\n// Generated by inst: enclosing function of every yield site of package %s.\nvar siteFuncs = []string{\n", pkgName)
	for _, s := range siteFuncs {
		fmt.Fprintf(&b, "\t%q,\n", s)
	}
	b.WriteString("}\n")
	if err := os.WriteFile(sitesPath, []byte(b.String()), 0o644); err != nil {
		fmt.Fprintln(os.Stderr, "inst:", err)
		os.Exit(2)
	}
	if len(unsupported) > 0 {
		fmt.Println("inst: not instrumentable for the one-runnable-goroutine scheduler:", strings.Join(unsupported, "; "))
		os.Exit(3)
	}
	fmt.Printf("inst: %d files, %d yield sites\n", len(names), len(siteFuncs))
}
