#!/bin/bash
# Determinism self-test (DESIGN §8): per property, the per-run event-log hashes
# of N runs must be identical across repeated processes, GOMAXPROCS 1/4/16 and
# shard layouts 1/4/16. Usage: ./selftest.sh [runs-per-property] [props...]
set -u
ROOT="$(cd "$(dirname "$0")" && pwd)"; cd "$ROOT" || exit 2
export GOFLAGS=-mod=mod GOPROXY=off GOSUMDB=off GOTOOLCHAIN=local VERIF_ROOT="$ROOT"
N="${1:-48}"; shift || true
PROPS="${*:-C06 C07 C15 C16 C18}"
./check build || exit 2
OUT="$(mktemp -d)"; trap 'rm -rf "$OUT"' EXIT
fail=0
one() { # one <prop> <bin>
  local p="$1" bin="$2" n=0
  GOMAXPROCS=1 VERIF_SHARDS=1 VERIF_SHARD=0 "$bin" hashes "$p" quick "$N" | grep -v '^evals' | LC_ALL=C sort > "$OUT/$p.base"
  [ -s "$OUT/$p.base" ] || { echo "selftest $p: no baseline"; return 1; }
  for gmp in 1 4 16; do
    for layout in "1 0" "4 0" "4 1" "4 2" "4 3" "16 0" "16 5" "16 10" "16 15" "1 0"; do
      set -- $layout
      ( GOMAXPROCS=$gmp VERIF_SHARDS=$1 VERIF_SHARD=$2 "$bin" hashes "$p" quick "$N" | grep -v '^evals' > "$OUT/$p.$gmp.$1.$2.$n" ) &
      n=$((n+1))
    done
  done
  wait
  local bad=0 procs=0
  for f in "$OUT/$p".[0-9]*; do
    procs=$((procs+1))
    # every line of f must be in the baseline
    if [ -n "$(LC_ALL=C sort "$f" | LC_ALL=C comm -23 - "$OUT/$p.base")" ]; then bad=$((bad+1)); echo "selftest $p: DIVERGENCE in $f"; fi
  done
  echo "selftest $p: $procs processes x (GOMAXPROCS 1/4/16, shard layouts 1/4/16), $N runs: $bad divergent"
  [ $bad -eq 0 ]
}
for p in $PROPS; do
  if [ "$p" = "C16" ]; then
    export -f one; export OUT N
    "$ROOT/c16/run.sh" exec bash -c 'one C16 "$0"' || fail=1
  else
    one "$p" "$ROOT/bin/dst" || fail=1
  fi
done
exit $fail
