// Package fmts adapts the five codecs of biostuff to one shape (an iterator of
// Items) and holds the independent input generators.
package fmts

import (
	"fmt"
	"io"
	"iter"
	"math"
	"sort"
	"strconv"
	"strings"

	"verif/core"

	"github.com/fluhus/biostuff/formats/bed"
	"github.com/fluhus/biostuff/formats/fasta"
	"github.com/fluhus/biostuff/formats/fastq"
	"github.com/fluhus/biostuff/formats/newick"
	"github.com/fluhus/biostuff/formats/sam"
)

// Item is one (value, error) pair yielded by an iterator, rendered by content.
type Item struct {
	Err     bool   // the error was non-nil
	ErrText string // its text (never part of equality)
	Text    string // canonical rendering of the value (semantic equality is string equality)
	// Late renders the very value the library yielded once more, whenever it is
	// called: a consumer that kept the record sees this, not Text, if the library
	// went on writing into memory the record shares (nil for error items).
	Late func() string `json:"-"`
}

// LateKeys renders every item again, now (see Item.Late).
func LateKeys(items []Item) []string {
	out := make([]string, len(items))
	for i, it := range items {
		out[i] = it.Key()
		if !it.Err && it.Late != nil {
			out[i] = "R " + it.Late()
		}
	}
	return out
}

// Key is the identity used by oracles: errors compare by non-nil-ness only.
func (i Item) Key() string {
	if i.Err {
		return "E"
	}
	return "R " + i.Text
}

func (i Item) String() string {
	if i.Err {
		return "error(" + i.ErrText + ")"
	}
	return i.Text
}

// Keys renders a list of items.
func Keys(items []Item) []string {
	out := make([]string, len(items))
	for i, it := range items {
		out[i] = it.Key()
	}
	return out
}

// Strings renders a list of items with error texts.
func Strings(items []Item) []string {
	out := make([]string, len(items))
	for i, it := range items {
		out[i] = it.String()
	}
	return out
}

// adapt wraps a library iterator transparently: our yield is called exactly
// when the library calls its yield, and its return value is passed through.
func adapt[T any](seq iter.Seq2[T, error], conv func(T) string) iter.Seq[Item] {
	return func(yield func(Item) bool) {
		seq(func(v T, err error) bool {
			if err != nil {
				return yield(Item{Err: true, ErrText: err.Error()})
			}
			return yield(Item{Text: conv(v), Late: func() string { return conv(v) }})
		})
	}
}

// Format is one codec in adapter form.
type Format struct {
	Name    string
	Ext     string
	Reader  func(io.Reader) iter.Seq[Item]
	File    func(string) iter.Seq[Item]
	ErrLast bool   // C18: an error item is always the last item
	Special string // delimiter bytes of the format
	Gen     func(r *core.Rng, sz Size) Doc
}

// q renders a text field: quoted when short, by length and content hash when
// long (semantic equality is preserved; quoting 64 KiB fields per item was the
// dominant cost of executions on large inputs).
func q[T ~string | ~[]byte](v T) string {
	if len(v) <= 96 {
		return strconv.Quote(string(v))
	}
	h := uint64(14695981039346656037)
	for i := 0; i < len(v); i++ {
		h = (h ^ uint64(v[i])) * 1099511628211
	}
	return fmt.Sprintf("<%d bytes, fnv %016x, starts %q>", len(v), h, string(v[:24]))
}

func fastaText(f *fasta.Fasta) string {
	if f == nil {
		return "<nil>"
	}
	return "fasta{" + q(f.Name) + " " + q(f.Sequence) + "}"
}

func fastqText(f *fastq.Fastq) string {
	if f == nil {
		return "<nil>"
	}
	return "fastq{" + q(f.Name) + " " + q(f.Sequence) + " " + q(f.Quals) + "}"
}

func tagText(v any) string {
	switch x := v.(type) {
	case float64:
		if math.IsNaN(x) {
			return "f:NaN"
		}
		return fmt.Sprintf("f:%x", math.Float64bits(x))
	case []byte:
		return fmt.Sprintf("H:%x", x)
	case byte:
		return fmt.Sprintf("A:%d", x)
	case int:
		return fmt.Sprintf("i:%d", x)
	case string:
		return "Z:" + q(x)
	}
	return fmt.Sprintf("%T:%v", v, v)
}

func samText(s *sam.SAM) string {
	if s == nil {
		return "<nil>"
	}
	keys := make([]string, 0, len(s.Tags))
	for k := range s.Tags {
		keys = append(keys, k)
	}
	sort.Strings(keys)
	var b strings.Builder
	fmt.Fprintf(&b, "sam{%s %d %s %d %d %s %s %d %d %s %s", q(s.Qname), int(s.Flag), q(s.Rname), s.Pos, s.Mapq,
		q(s.Cigar), q(s.Rnext), s.Pnext, s.Tlen, q(s.Seq), q(s.Qual))
	for _, k := range keys {
		fmt.Fprintf(&b, " %q=%s", k, tagText(s.Tags[k]))
	}
	b.WriteString("}")
	return b.String()
}

func samhText(sh sam.SAMOrHeader) string {
	switch {
	case sh.H != nil && sh.S != nil:
		return fmt.Sprintf("both{%q %s}", *sh.H, samText(sh.S))
	case sh.H != nil:
		return "header{" + q(*sh.H) + "}"
	case sh.S != nil:
		return samText(sh.S)
	}
	return "neither{}"
}

func bedText(b *bed.BED) string {
	if b == nil {
		return "<nil>"
	}
	return fmt.Sprintf("bed{%d %s %d %d %s %d %s %d %d %v %d %v %v}", b.N, q(b.Chrom), b.ChromStart, b.ChromEnd,
		q(b.Name), b.Score, q(b.Strand), b.ThickStart, b.ThickEnd, b.ItemRGB, b.BlockCount,
		append([]int{}, b.BlockSizes...), append([]int{}, b.BlockStarts...))
}

// NodeText renders a tree structurally.
func NodeText(n *newick.Node) string {
	if n == nil {
		return "<nil>"
	}
	var b strings.Builder
	var rec func(n *newick.Node, depth int)
	rec = func(n *newick.Node, depth int) {
		if n == nil {
			b.WriteString("<nil>")
			return
		}
		if depth > 10000 {
			b.WriteString("<deep>")
			return
		}
		d := "NaN"
		if !math.IsNaN(n.Distance) {
			d = fmt.Sprintf("%x", math.Float64bits(n.Distance))
		}
		fmt.Fprintf(&b, "(%s:%s", q(n.Name), d)
		for _, c := range n.Children {
			b.WriteString(" ")
			rec(c, depth+1)
		}
		b.WriteString(")")
	}
	rec(n, 0)
	return b.String()
}

// The formats.
var (
	Fasta = &Format{Name: "fasta", Ext: "fa", ErrLast: true, Special: "\n\r>",
		Reader: func(r io.Reader) iter.Seq[Item] { return adapt(fasta.Reader(r), fastaText) },
		File:   func(p string) iter.Seq[Item] { return adapt(fasta.File(p), fastaText) },
		Gen:    genFasta}
	Fastq = &Format{Name: "fastq", Ext: "fq", ErrLast: true, Special: "\n\r@+",
		Reader: func(r io.Reader) iter.Seq[Item] { return adapt(fastq.Reader(r), fastqText) },
		File:   func(p string) iter.Seq[Item] { return adapt(fastq.File(p), fastqText) },
		Gen:    genFastq}
	Sam = &Format{Name: "sam", Ext: "sam", Special: "\n\r\t@:\"",
		Reader: func(r io.Reader) iter.Seq[Item] { return adapt(sam.Reader(r), samText) },
		File:   func(p string) iter.Seq[Item] { return adapt(sam.File(p), samText) },
		Gen:    genSam}
	SamH = &Format{Name: "samh", Ext: "sam", Special: "\n\r\t@:\"",
		Reader: func(r io.Reader) iter.Seq[Item] { return adapt(sam.ReaderHeader(r), samhText) },
		File:   func(p string) iter.Seq[Item] { return adapt(sam.FileHeader(p), samhText) },
		Gen:    genSam}
	Bed = &Format{Name: "bed", Ext: "bed", ErrLast: true, Special: "\n\r\t#,\"",
		Reader: func(r io.Reader) iter.Seq[Item] { return adapt(bed.Reader(r), bedText) },
		File:   func(p string) iter.Seq[Item] { return adapt(bed.File(p), bedText) },
		Gen:    genBed}
	Newick = &Format{Name: "newick", Ext: "nwk", ErrLast: true, Special: "\n\r(),:;' \t_",
		Reader: func(r io.Reader) iter.Seq[Item] { return adapt(newick.Reader(r), NodeText) },
		File:   func(p string) iter.Seq[Item] { return adapt(newick.File(p), NodeText) },
		Gen:    genNewick}
)

// All lists the formats in a fixed order.
var All = []*Format{Fasta, Fastq, Sam, SamH, Bed, Newick}

// ByName finds a format.
func ByName(n string) *Format {
	for _, f := range All {
		if f.Name == n {
			return f
		}
	}
	return nil
}
