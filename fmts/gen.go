package fmts

import (
	"bytes"
	"fmt"
	"strconv"
	"strings"

	"verif/core"
)

// Size classes of generated inputs (DESIGN §3.5).
type Size int

const (
	Tiny   Size = iota // aims at <= 14 bytes
	Small              // <= ~400 bytes
	Medium             // 4-10 KiB, crosses the 4096-byte bufio buffer
	Large              // 70-200 KiB, crosses bufio.Scanner's 64 KiB token limit
	Multi              // many short records (3-15), for stop-position and record-boundary coverage
	Huge               // one or two records with a line beyond 1 MiB (thorough tier, rarely)
)

func (s Size) String() string { return [...]string{"tiny", "small", "medium", "large", "multi", "huge"}[s] }

// Doc is a well-formed text as a list of content lines (no terminators inside).
type Doc struct {
	Lines     [][]byte
	FinalTerm bool // the last line is terminated
}

// Render joins the lines with the terminator.
func (d Doc) Render(term string) []byte {
	var b bytes.Buffer
	for i, l := range d.Lines {
		b.Write(l)
		if i < len(d.Lines)-1 || d.FinalTerm {
			b.WriteString(term)
		}
	}
	return b.Bytes()
}

const (
	nameAlpha = "abcXYZ019 _|.:>@+#;'=-"
	seqAlpha  = "ACGTNacgtn*-"
	dnaAlpha  = "ACGTN"
	qualAlpha = "!#5IJ~@+>("
	wordAlpha = "abcdefXYZ0123_.-"
)

// total payload budget for a size class
func budget(r *core.Rng, sz Size) int {
	switch sz {
	case Tiny:
		return r.Range(0, 8)
	case Small:
		return r.Range(0, 300)
	case Medium:
		return r.Range(4200, 10000)
	case Multi:
		return r.Range(0, 150)
	case Huge:
		return r.Range(100, 2000)
	default:
		return r.Range(70000, 200000)
	}
}

func nrec(r *core.Rng, sz Size) int {
	switch sz {
	case Tiny:
		return r.Range(0, 2)
	case Small:
		return r.Range(0, 5)
	case Medium:
		return r.Range(1, 30)
	case Multi:
		return r.Range(3, 15)
	case Huge:
		return r.Range(1, 2)
	default:
		return r.Range(1, 6)
	}
}

func splitBudget(r *core.Rng, total, n int) []int {
	out := make([]int, n)
	if n == 0 {
		return out
	}
	for i := 0; i < n-1; i++ {
		x := r.Range(0, 2*total/n)
		if r.Chance(0.15) {
			x = 0
		}
		if x > total {
			x = total
		}
		out[i] = x
		total -= x
	}
	out[n-1] = total
	return out
}

// edgeLen is a length next to an internal buffer size: the 4096-byte bufio
// buffer (and its multiples) for medium inputs, bufio.Scanner's 64 KiB token
// limit for large ones. ok=false: no edge length for this size class.
func edgeLen(r *core.Rng, sz Size) (int, bool) {
	switch sz {
	case Medium:
		if r.Chance(0.4) {
			return 4096*r.Range(1, 2) + r.Range(-3, 3), true
		}
	case Large:
		if r.Chance(0.6) {
			return core.Pick(r, []int{65536, 65536, 65536, 131072, 4096 * r.Range(3, 20)}) + r.Range(-3, 3), true
		}
	case Huge: // always: a line of 1 MiB (+-3) up to 1.5 MiB
		return core.Pick(r, []int{1 << 20, 1 << 20, 1<<20 + r.Range(0, 1<<19)}) + r.Range(-3, 3), true
	}
	return 0, false
}

func genFasta(r *core.Rng, sz Size) Doc {
	var d Doc
	n := nrec(r, sz)
	lens := splitBudget(r, budget(r, sz), n)
	maxName := 8
	if sz == Tiny {
		maxName = 2
	}
	blank := r.Chance(0.3)
	edge := r.Intn(n + 1)
	for i := 0; i < n; i++ {
		if !(i == 0 && r.Chance(0.12)) || i == edge {
			d.Lines = append(d.Lines, append([]byte(">"), r.Bytes(r.Range(0, maxName), nameAlpha)...))
		}
		seq := r.Bytes(lens[i], seqAlpha)
		width := []int{1, 3, 60, 70, 80, 4096, 1 << 30}[r.Intn(7)]
		if e, ok := edgeLen(r, sz); ok && i == edge {
			seq, width = r.Bytes(e, seqAlpha), 1<<30
			if r.Chance(0.2) { // or a name line of that length
				d.Lines[len(d.Lines)-1] = append([]byte(">"), r.Bytes(e-1, nameAlpha)...)
			}
		}
		for len(seq) > 0 {
			w := width
			if r.Chance(0.2) {
				w = r.Range(1, 100)
			}
			if w > len(seq) {
				w = len(seq)
			}
			d.Lines = append(d.Lines, seq[:w])
			seq = seq[w:]
			if blank && r.Chance(0.1) {
				d.Lines = append(d.Lines, nil)
			}
		}
	}
	d.FinalTerm = r.Chance(0.7)
	return d
}

func genFastq(r *core.Rng, sz Size) Doc {
	var d Doc
	n := nrec(r, sz)
	edgeRec := r.Intn(n + 1) // at most one record carries an edge-length line
	bud := budget(r, sz) / 2
	if sz == Large {
		bud *= 2 // lines beyond bufio.Scanner's 64 KiB token limit
	}
	lens := splitBudget(r, bud, n)
	maxName := 8
	if sz == Tiny {
		maxName = 1
	}
	for i := 0; i < n; i++ {
		name := r.Bytes(r.Range(0, maxName), nameAlpha)
		l := lens[i]
		if l > 65000 && r.Chance(0.5) {
			l = 65000 // stay below the scanner limit in about half of the large records
		}
		if e, ok := edgeLen(r, sz); ok && i == edgeRec {
			l = e
			if r.Chance(0.15) {
				name = r.Bytes(e-1, nameAlpha)
			}
		}
		d.Lines = append(d.Lines, append([]byte("@"), name...))
		d.Lines = append(d.Lines, r.Bytes(l, dnaAlpha))
		plus := []byte("+")
		if r.Chance(0.2) {
			plus = append(plus, name...)
		}
		d.Lines = append(d.Lines, plus)
		d.Lines = append(d.Lines, r.Bytes(l, qualAlpha))
	}
	d.FinalTerm = r.Chance(0.7)
	if n > 0 && len(d.Lines[len(d.Lines)-1]) == 0 {
		d.FinalTerm = true // otherwise indistinguishable from a file cut after the '+' line
	}
	return d
}

func word(r *core.Rng, lo, hi int) string { return string(r.Bytes(r.Range(lo, hi), wordAlpha)) }

func num(r *core.Rng) string {
	switch r.Intn(6) {
	case 0:
		return "0"
	case 1:
		return strconv.Itoa(-r.Intn(1000))
	case 2:
		return strconv.Itoa(r.Intn(1 << 30))
	default:
		return strconv.Itoa(r.Intn(5000))
	}
}

func samTag(r *core.Rng, i int) string {
	key := fmt.Sprintf("%c%c", 'A'+byte(r.Intn(26)), 'a'+byte(i%26)) // distinct keys within a record
	switch r.Intn(6) {
	case 0:
		return key + ":A:" + string(r.Bytes(1, wordAlpha))
	case 1:
		return key + ":i:" + num(r)
	case 2:
		return key + ":f:" + core.Pick(r, []string{"1.5", "-0.25", "3e-05", "0", "1e+10", "NaN", "Inf"})
	case 3:
		return key + ":Z:" + string(r.Bytes(r.Range(0, 12), nameAlpha))
	case 4:
		return key + ":H:" + core.Pick(r, []string{"", "1AE3", "00ff", "deadBEEF"})
	default:
		return key + ":B:" + core.Pick(r, []string{"c,1,2", "f,0.5", "S"})
	}
}

func genSam(r *core.Rng, sz Size) Doc {
	var d Doc
	n := nrec(r, sz)
	edgeRec := r.Intn(n + 1)
	lens := splitBudget(r, budget(r, sz)/2, n)
	if sz != Tiny {
		for h := r.Intn(4); h > 0; h-- {
			d.Lines = append(d.Lines, []byte(core.Pick(r, []string{
				"@HD\tVN:1.6\tSO:unsorted", "@SQ\tSN:chr1\tLN:248956422", "@CO\tfree text: with 'quotes' and @ signs",
				"@PG\tID:bwa\tPN:bwa\tCL:bwa mem -t 4 ref.fa reads.fq", "@RG\tID:" + word(r, 1, 6), "@CO"})))
		}
	}
	for i := 0; i < n; i++ {
		l := lens[i]
		e, edge := edgeLen(r, sz)
		edge = edge && i == edgeRec
		if edge {
			l = r.Range(0, 40)
		}
		fields := []string{word(r, 0, 8), strconv.Itoa(r.Intn(4096)), word(r, 1, 5), num(r), strconv.Itoa(r.Intn(256)),
			core.Pick(r, []string{"*", "10M", "3S7M2I", "5M1D5M"}), core.Pick(r, []string{"=", "*", "chr2"}), num(r), num(r),
			string(r.Bytes(l, dnaAlpha)), string(r.Bytes(l, "!#5IJ~@+>("))}
		if sz == Tiny {
			fields = []string{"", "0", "", "0", "0", "", "", "0", "0", "", ""}
		}
		for t, nt := 0, r.Intn(4); t < nt && sz != Tiny; t++ {
			fields = append(fields, samTag(r, t))
		}
		if need := e - len(strings.Join(fields, "\t")); edge && need > 0 && sz != Tiny {
			// make the whole line an edge length: longer SEQ/QUAL (kept equal) and QNAME
			pad := string(r.Bytes(need/2, dnaAlpha))
			fields[9] += pad
			fields[10] += pad
			fields[0] += strings.Repeat("q", need-2*(need/2))
		}
		d.Lines = append(d.Lines, []byte(strings.Join(fields, "\t")))
		if r.Chance(0.05) {
			d.Lines = append(d.Lines, nil) // blank lines are skipped by the CSV layer
		}
		if sz != Tiny && r.Chance(0.05) {
			d.Lines = append(d.Lines, []byte("@CO\tmid-file header"))
		}
	}
	d.FinalTerm = r.Chance(0.7)
	return d
}

func intList(r *core.Rng, n int) string {
	xs := make([]string, n)
	for i := range xs {
		xs[i] = strconv.Itoa(r.Intn(1000))
	}
	return strings.Join(xs, ",")
}

func genBed(r *core.Rng, sz Size) Doc {
	var d Doc
	n := nrec(r, sz)
	if sz == Medium {
		n = r.Range(80, 200)
	}
	if sz == Large {
		n = r.Range(1500, 4000)
	}
	nf := r.Range(3, 12)
	if sz == Tiny {
		nf = 3
	}
	edgeRec := r.Intn(n + 1)
	if sz == Huge {
		edgeRec = 0
	}
	for i := 0; i < n; i++ {
		if sz != Tiny && r.Chance(0.08) {
			d.Lines = append(d.Lines, []byte("#"+word(r, 0, 10)+"\ttrack\t"))
		}
		if sz != Tiny && r.Chance(0.05) {
			d.Lines = append(d.Lines, nil)
		}
		bc := r.Intn(4)
		sizes, starts := intList(r, bc), intList(r, bc)
		chrom := "chr" + word(r, 0, 3)
		if sz == Tiny {
			chrom = word(r, 0, 1)
		}
		f := []string{chrom, num(r), num(r), word(r, 0, 8), num(r), core.Pick(r, []string{"+", "-", ".", ""}),
			num(r), num(r), fmt.Sprintf("%d,%d,%d", r.Intn(256), r.Intn(256), r.Intn(256)), strconv.Itoa(bc), sizes, starts}
		if sz == Tiny {
			f[1], f[2] = strconv.Itoa(r.Intn(10)), strconv.Itoa(r.Intn(10))
		}
		if e, ok := edgeLen(r, sz); ok && i == edgeRec {
			if nf > 3 {
				if need := e - len(strings.Join(f[:nf], "\t")); need > 0 {
					f[3] += string(r.Bytes(need, wordAlpha))
				}
			} else if need := e - len(strings.Join(f[:nf], "\t")); need > 0 {
				f[0] += string(r.Bytes(need, wordAlpha))
			}
		}
		if nf == 10 && bc != 0 {
			f[9] = "0" // block lists absent: the count must be zero
		}
		if nf == 11 && bc != 0 {
			f[9], f[10] = "0", ""
		}
		if r.Chance(0.1) && nf >= 9 {
			f[8] = "0x10,010,7" // ParseUint base 0 forms
		}
		d.Lines = append(d.Lines, []byte(strings.Join(f[:nf], "\t")))
	}
	d.FinalTerm = r.Chance(0.7)
	return d
}

func nwkName(r *core.Rng) string {
	switch r.Intn(6) {
	case 0:
		return ""
	case 1:
		return "'" + strings.ReplaceAll(string(r.Bytes(r.Range(0, 8), "ab (),:;'_\t")), "'", "''") + "'"
	case 2:
		return "''"
	case 3:
		return core.Pick(r, []string{"a[b]", "[x]", "n[1", "]", "p[&&NHX=1]q"}) // brackets are ordinary name bytes
	default:
		return string(r.Bytes(r.Range(1, 6), "abcXYZ019_.-|"))
	}
}

func nwkTree(r *core.Rng, depth, budget int, toks *[]string) {
	if depth > 0 && budget > 0 && r.Chance(0.6) {
		*toks = append(*toks, "(")
		k := r.Range(1, 3)
		for i := 0; i < k; i++ {
			if i > 0 {
				*toks = append(*toks, ",")
			}
			nwkTree(r, depth-1, budget/k, toks)
		}
		*toks = append(*toks, ")")
	}
	if nm := nwkName(r); nm != "" {
		*toks = append(*toks, nm)
	}
	if r.Chance(0.4) {
		*toks = append(*toks, ":", core.Pick(r, []string{"1", "0.5", "1e-3", "-2", "0", "12.25", "1E5", ".5"}))
	}
}

func genNewick(r *core.Rng, sz Size) Doc {
	var d Doc
	n := nrec(r, sz)
	depth := 3
	switch sz {
	case Tiny:
		depth = 1
	case Multi, Huge:
		depth = 2
	case Medium:
		n = r.Range(50, 120)
		depth = 5
	case Large:
		n = r.Range(1000, 2400)
		depth = 5
	}
	var line []byte
	ws := r.Chance(0.5)
	edgeRec := r.Intn(n + 1)
	if sz == Huge {
		edgeRec = 0
	}
	for i := 0; i < n; i++ {
		var toks []string
		nwkTree(r, depth, 12, &toks)
		if e, ok := edgeLen(r, sz); ok && i == edgeRec {
			toks = append([]string{"(", "'" + string(r.Bytes(e, "ab (),:;_")) + "'", ")"}, toks...)
			if len(toks) > 3 && toks[3] != ":" && toks[3] != ";" {
				toks = toks[:3] // "(name)" followed directly by a name token would not be well-formed
			}
		}
		toks = append(toks, ";")
		for _, t := range toks {
			line = append(line, t...)
			if ws && r.Chance(0.15) {
				line = append(line, core.Pick(r, []string{" ", "\t", "  "})...)
			}
			if ws && r.Chance(0.08) {
				d.Lines = append(d.Lines, line)
				line = nil
			}
		}
		if r.Chance(0.6) {
			d.Lines = append(d.Lines, line)
			line = nil
		}
	}
	if line != nil {
		d.Lines = append(d.Lines, line)
	}
	d.FinalTerm = r.Chance(0.7)
	return d
}

// Mutate derives an arbitrary input from a well-formed one.
func Mutate(r *core.Rng, f *Format, in []byte) []byte {
	out := append([]byte{}, in...)
	alpha := f.Special + f.Special + "A0a \"'\x00\xff\xef\xbb\xbf\x80"
	for k := r.Range(1, 4); k > 0; k-- {
		switch r.Intn(9) {
		case 8: // leading junk real files carry: a UTF-8/UTF-16 byte order mark, gzip magic, NUL
			out = append([]byte(core.Pick(r, []string{"\xef\xbb\xbf", "\xef\xbb\xbf", "\xff\xfe", "\x1f\x8b", "\x00", "\xef\xbb"})), out...)
		case 0: // flip a byte to a special one
			if len(out) > 0 {
				out[r.Intn(len(out))] = alpha[r.Intn(len(alpha))]
			}
		case 1: // insert a special byte
			p := r.Intn(len(out) + 1)
			out = append(out[:p], append([]byte{alpha[r.Intn(len(alpha))]}, out[p:]...)...)
		case 2: // delete a range
			if len(out) > 0 {
				p := r.Intn(len(out))
				q := p + r.Geom(3)
				if q > len(out) {
					q = len(out)
				}
				out = append(out[:p], out[q:]...)
			}
		case 3: // truncate
			if len(out) > 0 {
				out = out[:r.Intn(len(out))]
			}
		case 4: // duplicate a range
			if len(out) > 0 {
				p := r.Intn(len(out))
				q := p + r.Geom(8)
				if q > len(out) {
					q = len(out)
				}
				seg := append([]byte{}, out[p:q]...)
				out = append(out[:q], append(seg, out[q:]...)...)
			}
		case 5: // delete a line
			ls := bytes.SplitAfter(out, []byte("\n"))
			if len(ls) > 1 {
				i := r.Intn(len(ls))
				ls = append(ls[:i], ls[i+1:]...)
				out = bytes.Join(ls, nil)
			}
		case 6: // swap two lines
			ls := bytes.SplitAfter(out, []byte("\n"))
			if len(ls) > 2 {
				i, j := r.Intn(len(ls)), r.Intn(len(ls))
				ls[i], ls[j] = ls[j], ls[i]
				out = bytes.Join(ls, nil)
			}
		case 7: // a lone CR or a CRLF somewhere
			p := r.Intn(len(out) + 1)
			ins := core.Pick(r, []string{"\r", "\r\n", "\n\n", "\n\r"})
			out = append(out[:p], append([]byte(ins), out[p:]...)...)
		}
	}
	return out
}

// RandomBytes is raw noise over the format's delimiter-rich alphabet.
func RandomBytes(r *core.Rng, f *Format, n int) []byte {
	return r.Bytes(n, f.Special+f.Special+f.Special+"Aa0 1\t\x00\xff\xef\xbb\xbf")
}

// Boundary64K is a small well-formed document (one or two records) whose main line
// is within 3 bytes of 64 KiB: the size of bufio.Scanner's default token limit and of
// many hand-rolled read-ahead windows. Cheap enough for the quick tier.
func Boundary64K(r *core.Rng, f *Format) Doc {
	l := 65536 + r.Range(-3, 3)
	var d Doc
	switch f.Name {
	case "fasta":
		d.Lines = [][]byte{[]byte(">a"), r.Bytes(l, seqAlpha), []byte(">b"), []byte("ACGT")}
	case "fastq":
		d.Lines = [][]byte{[]byte("@a"), r.Bytes(l, dnaAlpha), []byte("+"), r.Bytes(l, qualAlpha), []byte("@b"), []byte("AC"), []byte("+"), []byte("II")}
	case "sam", "samh":
		fields := []string{"q", "0", "chr1", "1", "0", "*", "=", "0", "0", "", ""}
		need := l - len(strings.Join(fields, "\t"))
		seq := string(r.Bytes(need/2, dnaAlpha))
		fields[9], fields[10], fields[0] = seq, seq, "q"+strings.Repeat("q", need-2*(need/2))
		d.Lines = [][]byte{[]byte("@HD\tVN:1.6"), []byte(strings.Join(fields, "\t")), []byte("r\t0\tchr1\t1\t0\t*\t=\t0\t0\tAC\tII")}
	case "bed":
		d.Lines = [][]byte{[]byte("chr1\t1\t2\t" + string(r.Bytes(l-9, wordAlpha))), []byte("chr2\t3\t4\tx")}
	default: // newick
		d.Lines = [][]byte{[]byte("('" + string(r.Bytes(l-6, "ab _")) + "',b);"), []byte("(c,d);")}
	}
	d.FinalTerm = r.Chance(0.7)
	return d
}
