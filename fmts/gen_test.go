package fmts

import (
	"bytes"
	"testing"

	"verif/core"
)

// The generators are meant to produce well-formed text: the fault-free decode
// of (nearly) every generated document must be free of error items, otherwise
// the C07 and CRLF oracles silently skip most cases (it happened once: a
// bracket name that contained ':').
func TestGeneratorsProduceCleanDocuments(t *testing.T) {
	for _, f := range All {
		for _, sz := range []Size{Tiny, Small, Multi, Medium} {
			bad, n := 0, 400
			for i := 0; i < n; i++ {
				doc := f.Gen(core.NewRng(uint64(i)*7919+uint64(sz)), sz)
				for _, term := range []string{"\n", "\r\n"} {
					ok := true
					f.Reader(bytes.NewReader(doc.Render(term)))(func(it Item) bool {
						if it.Err {
							ok = false
						}
						return true
					})
					if !ok {
						bad++
						break
					}
				}
			}
			if bad*100 > n { // more than 1%
				t.Errorf("%s/%s: %d of %d generated documents do not decode cleanly", f.Name, sz, bad, n)
			}
		}
	}
}
