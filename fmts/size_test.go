package fmts

import (
	"testing"

	"verif/core"
)

func TestSizeClasses(t *testing.T) {
	limits := map[Size]int{Tiny: 80, Small: 1500, Multi: 2500, Medium: 60000, Large: 900000}
	for _, f := range All {
		for sz, lim := range limits {
			for i := 0; i < 150; i++ {
				if n := len(f.Gen(core.NewRng(uint64(i)), sz).Render("\n")); n > lim {
					t.Errorf("%s/%s: a document of %d bytes (limit %d)", f.Name, sz, n, lim)
					break
				}
			}
		}
	}
}
