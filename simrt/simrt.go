// Package simrt is the tiny runtime the instrumented scratch copy of a package
// calls into: a yield point before every statement, plus cooperative blocking
// for the sync shims. With no scheduler installed every call is a no-op.
package simrt

// Hook is installed by the scheduler while callers are being interleaved.
var Hook func(site int)

// BlockHook is called by a shim primitive that cannot proceed (lock held);
// WakeHook when a primitive was released.
var (
	BlockHook func()
	WakeHook  func()
)

// Yield is the call the instrumenter inserts before every statement.
func Yield(site int) {
	if h := Hook; h != nil {
		h(site)
	}
}

// Block parks the calling task until some primitive is released.
func Block() {
	if h := BlockHook; h != nil {
		h()
		return
	}
	panic("simrt: a lock is held and no scheduler is installed (self-deadlock)")
}

// Wake tells the scheduler that blocked tasks may be runnable again.
func Wake() {
	if h := WakeHook; h != nil {
		h()
	}
}
