// Package ssort stands in for package sort inside the instrumented scratch
// copy. In reality a sort of shared data is not atomic; the statement-granular
// scheduler would treat a call into the uninstrumented standard library as one
// step, so these versions yield after every element move while callers are
// being interleaved. With no scheduler installed they are the real functions.
package ssort

import (
	"reflect"
	"sort"

	"verif/simrt"
)

type (
	Interface    = sort.Interface
	IntSlice     = sort.IntSlice
	StringSlice  = sort.StringSlice
	Float64Slice = sort.Float64Slice
)

// Pure lookups that only call back into instrumented closures.
var (
	Search        = sort.Search
	Find          = sort.Find
	SearchInts    = sort.SearchInts
	SearchStrings = sort.SearchStrings
	Reverse       = sort.Reverse
)

const site = -2

func insertion(n int, less func(i, j int) bool, swap func(i, j int)) {
	for i := 1; i < n; i++ {
		for j := i; j > 0 && less(j, j-1); j-- {
			swap(j, j-1)
			simrt.Yield(site)
		}
	}
}

// Sort sorts data (stable insertion sort while callers are interleaved).
func Sort(data Interface) {
	if simrt.Hook == nil {
		sort.Sort(data)
		return
	}
	insertion(data.Len(), data.Less, data.Swap)
}

// Stable sorts data stably.
func Stable(data Interface) {
	if simrt.Hook == nil {
		sort.Stable(data)
		return
	}
	insertion(data.Len(), data.Less, data.Swap)
}

func Ints(x []int)         { Sort(IntSlice(x)) }
func Strings(x []string)   { Sort(StringSlice(x)) }
func Float64s(x []float64) { Sort(Float64Slice(x)) }

// Slice sorts the slice x given the less function.
func Slice(x any, less func(i, j int) bool) {
	if simrt.Hook == nil {
		sort.Slice(x, less)
		return
	}
	insertion(reflect.ValueOf(x).Len(), less, reflect.Swapper(x))
}

// SliceStable sorts the slice x stably.
func SliceStable(x any, less func(i, j int) bool) {
	if simrt.Hook == nil {
		sort.SliceStable(x, less)
		return
	}
	insertion(reflect.ValueOf(x).Len(), less, reflect.Swapper(x))
}

// IsSorted reads the data element by element.
func IsSorted(data Interface) bool {
	for i := data.Len() - 1; i > 0; i-- {
		if data.Less(i, i-1) {
			return false
		}
		simrt.Yield(site)
	}
	return true
}

func IntsAreSorted(x []int) bool         { return IsSorted(IntSlice(x)) }
func StringsAreSorted(x []string) bool   { return IsSorted(StringSlice(x)) }
func Float64sAreSorted(x []float64) bool { return IsSorted(Float64Slice(x)) }

// SliceIsSorted reads the slice element by element.
func SliceIsSorted(x any, less func(i, j int) bool) bool {
	for i := reflect.ValueOf(x).Len() - 1; i > 0; i-- {
		if less(i, i-1) {
			return false
		}
		simrt.Yield(site)
	}
	return true
}
