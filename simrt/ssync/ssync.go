// Package ssync stands in for package sync inside the instrumented scratch
// copy: same names, cooperative blocking through simrt, so that a critical
// section containing yield points cannot wedge the one-runnable-goroutine
// scheduler. Only one task goroutine ever runs at a time, so the shims need no
// real synchronisation themselves.
package ssync

import (
	"sync"

	"verif/simrt"
)

// Locker mirrors sync.Locker.
type Locker = sync.Locker

// Mutex mirrors sync.Mutex.
type Mutex struct{ locked bool }

func (m *Mutex) Lock() {
	for m.locked {
		simrt.Block()
	}
	m.locked = true
}

func (m *Mutex) TryLock() bool {
	if m.locked {
		return false
	}
	m.locked = true
	return true
}

func (m *Mutex) Unlock() {
	if !m.locked {
		panic("sync: unlock of unlocked mutex")
	}
	m.locked = false
	simrt.Wake()
}

// RWMutex mirrors sync.RWMutex.
type RWMutex struct {
	w       bool
	readers int
}

func (m *RWMutex) Lock() {
	for m.w || m.readers > 0 {
		simrt.Block()
	}
	m.w = true
}

func (m *RWMutex) Unlock() {
	if !m.w {
		panic("sync: Unlock of unlocked RWMutex")
	}
	m.w = false
	simrt.Wake()
}

func (m *RWMutex) RLock() {
	for m.w {
		simrt.Block()
	}
	m.readers++
}

func (m *RWMutex) RUnlock() {
	if m.readers <= 0 {
		panic("sync: RUnlock of unlocked RWMutex")
	}
	m.readers--
	simrt.Wake()
}

func (m *RWMutex) TryLock() bool {
	if m.w || m.readers > 0 {
		return false
	}
	m.w = true
	return true
}

func (m *RWMutex) TryRLock() bool {
	if m.w {
		return false
	}
	m.readers++
	return true
}

func (m *RWMutex) RLocker() Locker { return rlocker{m} }

type rlocker struct{ m *RWMutex }

func (r rlocker) Lock()   { r.m.RLock() }
func (r rlocker) Unlock() { r.m.RUnlock() }

// Once mirrors sync.Once; a second caller arriving while f runs waits for it.
type Once struct {
	done    bool
	running bool
}

func (o *Once) Do(f func()) {
	if o.done {
		return
	}
	for o.running {
		simrt.Block()
	}
	if o.done {
		return
	}
	o.running = true
	defer func() {
		o.running = false
		o.done = true
		simrt.Wake()
	}()
	f()
}

// OnceFunc, OnceValue mirror the sync helpers.
func OnceFunc(f func()) func() {
	var o Once
	return func() { o.Do(f) }
}

func OnceValue[T any](f func() T) func() T {
	var o Once
	var v T
	return func() T {
		o.Do(func() { v = f() })
		return v
	}
}

// Map never blocks: the real one is fine under one runnable goroutine.
type Map = sync.Map

// WaitGroup is only meaningful with goroutines, which the instrumenter refuses.
type WaitGroup = sync.WaitGroup

// Pool is a deterministic LIFO free list (the real one depends on GC timing
// and on which P the caller runs, which would break replay).
type Pool struct {
	New   func() any
	items []any
}

func (p *Pool) Get() any {
	if n := len(p.items); n > 0 {
		x := p.items[n-1]
		p.items = p.items[:n-1]
		return x
	}
	if p.New != nil {
		return p.New()
	}
	return nil
}

func (p *Pool) Put(x any) { p.items = append(p.items, x) }
