#!/bin/bash
# c16/run.sh <quick|thorough>  |  c16/run.sh replay <file>
# Builds the C16 driver against an instrumented scratch copy of $REPO/regions
# (yield before every statement, sync -> cooperative shims), runs it, removes
# the scratch directory. Called by ./check after bin/dst and bin/inst are built.
set -u
ROOT="$(cd "$(dirname "$0")/.." && pwd)"
REPO="${VERIF_REPO:-/repo}"
export GOFLAGS=-mod=mod GOPROXY=off GOSUMDB=off GOTOOLCHAIN=local VERIF_ROOT="$ROOT"
S="$(mktemp -d "${TMPDIR:-/tmp}/c16scratch.XXXXXX")" || exit 2
trap 'rm -rf "$S"' EXIT
mkdir -p "$S/regions"
"$ROOT/bin/inst" "$REPO/regions" "$S/regions" "$S/sites.go" verif > "$S/inst.log" 2>&1
rc=$?
cat "$S/inst.log"
if [ $rc -eq 3 ]; then
  # goroutines/channels inside regions/: the statement-granular phase cannot model them; operation-granular only
  export VERIF_C16_NOSTMT="$(head -c 300 "$S/inst.log")"
  if [ "$1" = "replay" ]; then "$ROOT/bin/dst" replay "$2"; else "$ROOT/bin/dst" check C16 "$1"; fi
  exit $?
fi
[ $rc -eq 0 ] || { echo "c16: instrumentation failed (exit 2, not a violation)" >&2; exit 2; }
cp "$ROOT/cmd/dst/main.go" "$S/main.go"
cp "$ROOT/c16/reg16.go.tmpl" "$S/reg16.go"
cat > "$S/go.mod" <<EOM
module c16scratch

go 1.23

require (
	github.com/fluhus/biostuff v0.0.0
	verif v0.0.0
)

require (
	github.com/fluhus/gostuff v1.0.1 // indirect
	github.com/klauspost/compress v1.17.9 // indirect
	github.com/spaolacci/murmur3 v1.1.0 // indirect
	golang.org/x/exp v0.0.0-20240604190554-fc45aab8b7f8 // indirect
)

replace github.com/fluhus/biostuff => $REPO

replace verif => $ROOT
EOM
cp "$ROOT/go.sum" "$S/go.sum"
if ! (cd "$S" && go build -tags verif -o "$S/dst16" . ) > "$S/build.log" 2>&1; then
  cat "$S/build.log" >&2
  echo "c16: build of the instrumented driver failed (exit 2, not a violation)" >&2
  exit 2
fi
if [ "$1" = "replay" ]; then
  "$S/dst16" replay "$2"
elif [ "$1" = "exec" ]; then
  shift
  "$@" "$S/dst16"   # selftest: hand the instrumented driver to a command
else
  "$S/dst16" check C16 "$1"
fi
exit $?
