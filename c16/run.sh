#!/bin/bash
# c16/run.sh <quick|thorough>  |  c16/run.sh replay <file>
# Builds the C16 driver against an instrumented scratch copy of $REPO/regions
# (yield before every statement, sync -> cooperative shims), runs it, removes
# the scratch directory. Called by ./check after bin/dst and bin/inst are built.
set -u
ROOT="$(cd "$(dirname "$0")/.." && pwd)"
REPO="${VERIF_REPO:-/repo}"
export GOFLAGS=-mod=mod GOPROXY=off GOSUMDB=off GOTOOLCHAIN=local VERIF_ROOT="$ROOT"
S="$(mktemp -d "${TMPDIR:-/tmp}/c16scratch.XXXXXX")" || exit 2
trap 'rm -rf "$S"' EXIT
mkdir -p "$S/regions"
"$ROOT/bin/inst" "$REPO/regions" "$S/regions" "$S/sites.go" verif > "$S/inst.log" 2>&1
rc=$?
cat "$S/inst.log"
if [ $rc -eq 3 ]; then
  # goroutines/channels inside regions/: the statement-granular phase cannot model them; operation-granular only
  export VERIF_C16_NOSTMT="$(head -c 300 "$S/inst.log")"
  if [ "$1" = "replay" ]; then "$ROOT/bin/dst" replay "$2"; else "$ROOT/bin/dst" check C16 "$1"; fi
  exit $?
fi
[ $rc -eq 0 ] || { echo "c16: instrumentation failed (exit 2, not a violation)" >&2; exit 2; }
# The instrumented copy becomes package <module>/regions_verifinst of the repository's own
# module (so that it may import the repository's internal packages) through a build
# overlay: nothing is written into $REPO, the files live in the scratch directory only.
sed 's#iregions "c16scratch/regions"#iregions "github.com/fluhus/biostuff/regions_verifinst"#' "$ROOT/c16/reg16.go.tmpl" > "$S/reg16.go"
{
  printf '{"Replace": {\n'
  for f in "$S"/regions/*.go; do
    printf '  "%s/regions_verifinst/%s": "%s",\n' "$REPO" "$(basename "$f")" "$f"
  done
  printf '  "%s/cmd/dst/zz_reg16.go": "%s",\n' "$ROOT" "$S/reg16.go"
  printf '  "%s/cmd/dst/zz_sites.go": "%s"\n}}\n' "$ROOT" "$S/sites.go"
} > "$S/overlay.json"
MODFILE="$ROOT/go.mod"
if [ "$REPO" != "/repo" ]; then
  MODFILE="$S/go.mod"
  sed "s#=> /repo#=> $REPO#" "$ROOT/go.mod" > "$MODFILE"
  cp "$ROOT/go.sum" "$S/go.sum"
fi
if ! (cd "$ROOT" && go build -modfile="$MODFILE" -overlay "$S/overlay.json" -tags verif -o "$S/dst16" ./cmd/dst ) > "$S/build.log" 2>&1; then
  cat "$S/build.log" >&2
  echo "c16: build of the instrumented driver failed (exit 2, not a violation)" >&2
  exit 2
fi
if [ "$1" = "replay" ]; then
  "$S/dst16" replay "$2"
elif [ "$1" = "exec" ]; then
  shift
  "$@" "$S/dst16"   # selftest: hand the instrumented driver to a command
else
  "$S/dst16" check C16 "$1"
fi
exit $?
