package sim

// SinkPlan is an acceptance plan for a byte sink.
type SinkPlan struct {
	K       int  `json:"k"`       // the Write call that crosses byte K fails; K<0: never fails
	Sticky  bool `json:"sticky"`  // true: every later call fails too; false: only that one call fails
	Partial bool `json:"partial"` // true: the failing call accepts the bytes up to K and returns (m, err); false: (0, err)
	// Rich: the destination also implements io.ByteWriter and io.StringWriter (as
	// *bufio.Writer, *bytes.Buffer, *os.File ... do); encoders may take those paths.
	Rich bool `json:"rich,omitempty"`
}

// RichSink is a Sink that also offers WriteByte and WriteString.
type RichSink struct{ *Sink }

// WriteByte implements io.ByteWriter under the same plan.
func (s RichSink) WriteByte(b byte) error {
	_, err := s.Sink.Write([]byte{b})
	return err
}

// WriteString implements io.StringWriter under the same plan.
func (s RichSink) WriteString(x string) (int, error) { return s.Sink.Write([]byte(x)) }

// Sink is an io.Writer executing a SinkPlan.
type Sink struct {
	Plan     SinkPlan
	Accepted []byte
	Errors   int // errors returned to the caller
	Calls    int
	fired    bool
}

// Write implements io.Writer.
func (s *Sink) Write(p []byte) (int, error) {
	s.Calls++
	if s.Calls > AbsoluteRead {
		panic(StepCap{"writes-absolute"})
	}
	if s.Plan.K < 0 {
		s.Accepted = append(s.Accepted, p...)
		return len(p), nil
	}
	if s.fired {
		if s.Plan.Sticky {
			s.Errors++
			return 0, ErrInjected
		}
		s.Accepted = append(s.Accepted, p...)
		return len(p), nil
	}
	if len(s.Accepted)+len(p) <= s.Plan.K {
		s.Accepted = append(s.Accepted, p...)
		return len(p), nil
	}
	s.fired = true
	s.Errors++
	if s.Plan.Partial {
		m := s.Plan.K - len(s.Accepted)
		s.Accepted = append(s.Accepted, p[:m]...)
		return m, ErrInjected
	}
	return 0, ErrInjected
}
