// Package sim is the simulated environment of the library under test: the byte
// source (Stream), the byte sink (Sink), the consumer of an iterator
// (Consume), the storage behind File functions (Disk) and the scheduler of
// callers that share an object (Sched). Each executes an explicit plan, so an
// execution is a pure function of (plan, code).
package sim

import (
	"errors"
	"io"
	"io/fs"
	"os"
	"syscall"
)

// ErrInjected is the non-EOF failure the simulated reader/writer returns.
var ErrInjected = errors.New("sim: injected I/O failure")

// StepCap is the panic value used when a step cap is exceeded (classified as
// non-termination by the harness, deterministically, without a timer).
type StepCap struct{ What string }

// Bounded-liveness parameters (DESIGN §3.6).
const (
	LiveB        = 1000   // further Reads / items allowed after a fault began
	AbsoluteRead = 200000 // Reads per stream, absolute (plus three per input byte)
)

// Fault is a non-EOF read failure after Offset bytes.
type Fault struct {
	Offset   int    `json:"offset"`
	Forever  bool   `json:"forever"`          // false: error once, then EOF
	WithData bool   `json:"with_data"`        // error returned together with the last delivered chunk (n>0, err)
	Resume   bool   `json:"resume,omitempty"` // transient: after the one error the rest of the data is delivered (not used by C07)
	Kind     string `json:"kind,omitempty"`   // which non-EOF error value (FaultKinds); "" is ErrInjected
}

// FaultKinds is the palette of non-EOF errors real deployments meet.
var FaultKinds = []string{"", "", "unexpected-eof", "timeout", "closed-pipe", "path-error", "no-progress", "wraps-eof"} // no EINTR: a reader may legitimately retry it

// Err returns the error value the fault injects.
func (f *Fault) Err() error {
	switch f.Kind {
	case "unexpected-eof":
		return io.ErrUnexpectedEOF // what a torn gzip/zstd stream reports
	case "timeout":
		return os.ErrDeadlineExceeded // Timeout() == true
	case "closed-pipe":
		return io.ErrClosedPipe
	case "path-error":
		return &fs.PathError{Op: "read", Path: "sim", Err: syscall.EIO}
	case "eintr":
		return syscall.EINTR // Temporary() == true
	case "no-progress":
		return io.ErrNoProgress
	case "wraps-eof":
		// not io.EOF (Read must return EOF itself, callers test with ==), but io.EOF is in its chain
		return &fs.PathError{Op: "read", Path: "sim", Err: io.EOF}
	}
	return ErrInjected
}

// Plan is a delivery plan for a byte stream.
type Plan struct {
	// Chunks are the sizes of successive Read results; 0 is a stall (0, nil).
	// When exhausted, the rest is delivered in reads of Tail bytes (0: as much as asked).
	Chunks      []int  `json:"chunks,omitempty"`
	Tail        int    `json:"tail,omitempty"`
	EOFWithData bool   `json:"eof_with_data,omitempty"` // the last data comes together with io.EOF
	Fault       *Fault `json:"fault,omitempty"`
}

// Stream is an io.Reader executing a Plan over Data.
type Stream struct {
	Data []byte
	Plan Plan

	pos   int
	ci    int
	rem   int // rest of the current chunk when the caller's buffer was smaller
	end   int // bytes that will ever be delivered
	fired bool
	done  bool // EOF (or once-error) already returned
	ferr  error

	Reads      int
	AfterFault int   // Read calls after the fault fired
	FaultFired bool  // the injected error was actually returned
	EOFData    bool  // EOF was returned together with data
	Stalls     int   // stalls actually returned
	Seq        []int // the delivery sequence actually executed (n per Read; -1 EOF, -2 injected error, +1000000 flag for with-err)
	KeepSeq    bool
	SeqHash    uint64 // running hash of the delivery sequence (always kept)
}

// NewStream builds a stream.
func NewStream(data []byte, plan Plan) *Stream {
	s := &Stream{Data: data, Plan: plan, end: len(data), SeqHash: 1469598103934665603}
	if plan.Fault != nil {
		s.ferr = plan.Fault.Err()
		if plan.Fault.Offset < s.end {
			s.end = plan.Fault.Offset
		}
		if plan.Fault.Offset > len(data) {
			s.end = len(data)
		}
	}
	return s
}

// resume lifts the barrier after a transient fault: the rest of the data follows.
func (s *Stream) resume() {
	s.Plan.Fault = nil
	s.end = len(s.Data)
	s.rem = 0
	s.fired = false // the liveness cap counts Reads after a fault that persists
}

func (s *Stream) note(n int) {
	s.SeqHash = (s.SeqHash ^ uint64(int64(n))) * 1099511628211
	if s.KeepSeq {
		s.Seq = append(s.Seq, n)
	}
}

// Read implements io.Reader.
func (s *Stream) Read(p []byte) (int, error) {
	s.Reads++
	if s.Reads > AbsoluteRead+3*len(s.Data) {
		panic(StepCap{"reads-absolute"})
	}
	if s.fired {
		s.AfterFault++
		if s.AfterFault > LiveB {
			panic(StepCap{"reads-after-fault"})
		}
	}
	if len(p) == 0 {
		return 0, nil
	}
	if s.pos >= s.end {
		return s.atEnd()
	}
	// Size of this delivery.
	want := s.rem
	if want == 0 {
		if s.ci < len(s.Plan.Chunks) {
			want = s.Plan.Chunks[s.ci]
			s.ci++
			if want == 0 {
				s.Stalls++
				s.note(0)
				return 0, nil
			}
		} else {
			want = s.Plan.Tail
			if want <= 0 {
				want = len(p)
			}
		}
	}
	n := want
	if n > len(p) {
		n = len(p)
	}
	if n > s.end-s.pos {
		n = s.end - s.pos
		want = n
	}
	s.rem = want - n
	copy(p, s.Data[s.pos:s.pos+n])
	s.pos += n
	if s.pos >= s.end {
		// Last data: possibly together with the terminal condition.
		if s.Plan.Fault != nil && s.Plan.Fault.WithData {
			s.fired = true
			s.FaultFired = true
			s.note(n + 1000000)
			if s.Plan.Fault.Resume {
				s.resume()
			}
			return n, s.ferr
		}
		if s.Plan.Fault == nil && s.Plan.EOFWithData {
			s.done = true
			s.EOFData = true
			s.note(n + 1000000)
			return n, io.EOF
		}
	}
	s.note(n)
	return n, nil
}

func (s *Stream) atEnd() (int, error) {
	if s.Plan.Fault == nil {
		s.done = true
		s.note(-1)
		return 0, io.EOF
	}
	if s.Plan.Fault.Forever {
		s.fired = true
		s.FaultFired = true
		s.note(-2)
		return 0, s.ferr
	}
	if !s.fired {
		s.fired = true
		s.FaultFired = true
		s.note(-2)
		if s.Plan.Fault.Resume {
			s.resume()
		}
		return 0, s.ferr
	}
	s.done = true
	s.note(-1)
	return 0, io.EOF
}

// Pos is the number of bytes delivered so far.
func (s *Stream) Pos() int { return s.pos }
