package sim

import (
	"bytes"
	"compress/gzip"
	"fmt"
	"os"
	"syscall"
)

// FileCfg is a storage configuration for a File function.
type FileCfg struct {
	Kind    string `json:"kind"`               // plain | gz | gz2 (two concatenated members) | gztrunc | dir | missing | missing-parent | through-file
	Level   int    `json:"level,omitempty"`    // gzip level for gz kinds
	Split   int    `json:"split,omitempty"`    // gz2: where the input is split between the members
	Cut     int    `json:"cut,omitempty"`      // gztrunc: compressed bytes kept
	GzBytes int    `json:"gz_len,omitempty"`   // informational: compressed length
	Ext     string `json:"ext,omitempty"`      // extension without dot, e.g. fa
	Name    string `json:"name,omitempty"`     // file name used (relative to the scratch directory)
	Odd     string `json:"odd_name,omitempty"` // use this unusual base name (without extension) instead of f<n>
	Via     string `json:"via,omitempty"`      // how the path is spelled: "" | dot (./name) | abs | dotdot (sub/../name) | symlink (a link with the same suffix)
}

// Disk is the simulated storage: a scratch directory which the process has
// made its working directory, so that paths (and OS error strings) are relative
// and identical across runs.
type Disk struct {
	n int
}

// Gzip compresses data at the level (single member).
func Gzip(data []byte, level int) []byte {
	var b bytes.Buffer
	w, err := gzip.NewWriterLevel(&b, level)
	if err != nil {
		panic(err)
	}
	w.Write(data)
	w.Close()
	return b.Bytes()
}

// Materialise creates the configuration for content and returns the path to
// hand to the File function plus a cleanup function.
func (d *Disk) Materialise(cfg *FileCfg, content []byte) (string, func()) {
	d.n++
	ext := cfg.Ext
	if ext == "" {
		ext = "dat"
	}
	base := fmt.Sprintf("f%d.%s", d.n%4, ext) // names never depend on pid/time; reuse a few names
	if cfg.Odd != "" {
		base = cfg.Odd + "." + ext
		if cfg.Odd == "-" || cfg.Odd == "~" { // the bare conventional names, no extension
			base = cfg.Odd
		}
	}
	// via spells the path of an existing file in another way
	via := func(name string) (string, func()) {
		switch cfg.Via {
		case "dot":
			return "./" + name, func() {}
		case "abs":
			wd, err := os.Getwd()
			must(err)
			return wd + "/" + name, func() {}
		case "dotdot":
			os.Mkdir("sub", 0o755)
			return "sub/../" + name, func() { os.Remove("sub") }
		case "symlink":
			link := "ln-" + name // keeps the suffix, so suffix-driven decompression still applies
			os.Remove(link)
			must(os.Symlink(name, link))
			return link, func() { os.Remove(link) }
		}
		return name, func() {}
	}
	switch cfg.Kind {
	case "dangling-symlink":
		os.Remove(base)
		os.Remove("nothing-here")
		must(os.Symlink("nothing-here", base))
		cfg.Name = base
		return base, func() { os.Remove(base) }
	case "plain":
		must(os.WriteFile(base, content, 0o644))
		p, undo := via(base)
		cfg.Name = p
		return p, func() { undo(); os.Remove(base) }
	case "gz", "gz2", "gztrunc":
		name := base + ".gz"
		var z []byte
		if cfg.Kind == "gz2" {
			sp := cfg.Split
			if sp < 0 {
				sp = 0
			}
			if sp > len(content) {
				sp = len(content)
			}
			z = append(Gzip(content[:sp], cfg.Level), Gzip(content[sp:], cfg.Level)...)
		} else {
			z = Gzip(content, cfg.Level)
		}
		cfg.GzBytes = len(z)
		if cfg.Kind == "gztrunc" {
			c := cfg.Cut
			if c > len(z) {
				c = len(z)
			}
			if c < 0 {
				c = 0
			}
			z = z[:c]
		}
		must(os.WriteFile(name, z, 0o644))
		p, undo := via(name)
		cfg.Name = p
		return p, func() { undo(); os.Remove(name) }
	case "fifo":
		// a named pipe: delivers the bytes, but reports size 0 and cannot be seeked
		name := base
		os.Remove(name)
		must(syscall.Mkfifo(name, 0o644))
		done := make(chan struct{})
		go func() {
			defer close(done)
			w, err := os.OpenFile(name, os.O_WRONLY, 0) // blocks until a reader opens the pipe
			if err != nil {
				return
			}
			w.Write(content) // EPIPE if the reader goes away early: fine
			w.Close()
		}()
		cfg.Name = name
		return name, func() {
			// release the writer if nobody ever opened the pipe for reading
			if r, err := os.OpenFile(name, os.O_RDONLY|syscall.O_NONBLOCK, 0); err == nil {
				<-done
				r.Close()
			} else {
				<-done
			}
			os.Remove(name)
		}
	case "emfile":
		// the file exists and is readable, but the process has no descriptor left
		must(os.WriteFile(base, content, 0o644))
		var held []*os.File
		for {
			f, err := os.Open(os.DevNull)
			if err != nil {
				break
			}
			held = append(held, f)
			if len(held) > 100000 {
				panic("sim.Disk: descriptor limit not in force")
			}
		}
		cfg.Name = base
		return base, func() {
			for _, f := range held {
				f.Close()
			}
			os.Remove(base)
		}
	case "dir":
		name := base
		os.RemoveAll(name)
		must(os.Mkdir(name, 0o755))
		cfg.Name = name
		return name, func() { os.Remove(name) }
	case "missing":
		os.Remove(base)
		cfg.Name = base
		return base, func() {}
	case "missing-parent":
		os.RemoveAll("nodir")
		cfg.Name = "nodir/" + base
		return cfg.Name, func() {}
	case "through-file":
		must(os.WriteFile("plainfile", content, 0o644))
		cfg.Name = "plainfile/" + base
		return cfg.Name, func() { os.Remove("plainfile") }
	}
	panic("bad file kind " + cfg.Kind)
}

func must(err error) {
	if err != nil {
		panic(fmt.Sprintf("sim.Disk: %v", err))
	}
}
