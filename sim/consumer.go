package sim

import (
	"fmt"
	"iter"
)

// Consumer styles.
const (
	Direct = "direct" // call the iterator function value with a counting yield
	Range  = "range"  // for ... range with break
	Pull   = "pull"   // iter.Pull, next() StopAt+1 times, then stop()
)

// Styles lists the consumer styles.
var Styles = []string{Direct, Range, Pull}

// ConsumerPlan says when the consumer goes away. StopAt<0: never.
type ConsumerPlan struct {
	Style  string `json:"style"`
	StopAt int    `json:"stop_at"`
}

// Outcome is what a consumer observed.
type Outcome[T any] struct {
	Items     []T
	After     int    // callbacks made after the consumer returned false (direct style)
	Panic     string // recovered panic text, "" if none
	Capped    string // which step cap fired, "" if none
	Completed bool   // the iterator returned
}

// Consume drives seq according to plan. ItemCap bounds the items of a
// never-stopping consumer (0: no bound).
func Consume[T any](seq iter.Seq[T], plan ConsumerPlan, itemCap int) (out Outcome[T]) {
	defer func() {
		if r := recover(); r != nil {
			if c, ok := r.(StepCap); ok {
				out.Capped = c.What
				return
			}
			out.Panic = fmt.Sprint(r)
		}
	}()
	switch plan.Style {
	case Direct, "":
		stopped := false
		seq(func(it T) bool {
			if stopped {
				out.After++
				if out.After > LiveB {
					panic(StepCap{"callbacks-after-stop"})
				}
				return false
			}
			out.Items = append(out.Items, it)
			if itemCap > 0 && len(out.Items) > itemCap {
				panic(StepCap{"items"})
			}
			if plan.StopAt >= 0 && len(out.Items)-1 == plan.StopAt {
				stopped = true
				return false
			}
			return true
		})
		out.Completed = true
	case Range:
		for it := range seq {
			out.Items = append(out.Items, it)
			if itemCap > 0 && len(out.Items) > itemCap {
				panic(StepCap{"items"})
			}
			if plan.StopAt >= 0 && len(out.Items)-1 == plan.StopAt {
				break
			}
		}
		out.Completed = true
	case Pull:
		next, stop := iter.Pull(seq)
		func() {
			defer stop()
			for {
				it, ok := next()
				if !ok {
					break
				}
				out.Items = append(out.Items, it)
				if itemCap > 0 && len(out.Items) > itemCap {
					panic(StepCap{"items"})
				}
				if plan.StopAt >= 0 && len(out.Items)-1 == plan.StopAt {
					break
				}
			}
		}()
		out.Completed = true
	default:
		panic("bad consumer style " + plan.Style)
	}
	return out
}
