#!/usr/bin/env python3
"""Regenerates MANIFEST.json from the tables below (kept as a script so that the
manifest stays valid and in step with what is claimed)."""
import json, subprocess, sys

NA = {
 "C01": "round-trip law: a pure function of the record values and the line layout; no schedule, fault, cancellation or history in the statement (delivery of the same bytes is C06, failure is C07)",
 "C02": "length limits and structural corruption are properties of the content of the byte string, identical under every delivery; a cut-short file ends with a clean EOF, not with a fault -- pure function of the input",
 "C03": "pure function of the records; flag accessors are bit arithmetic; nothing to schedule, fail or cancel",
 "C04": "pure function of the records; nothing to schedule, fail or cancel",
 "C05": "pure function of the trees; nothing to schedule, fail or cancel",
 "C08": "Global/Local are pure functions of two byte strings and a matrix; the oracle is an optimisation reference, nothing can be scheduled, delayed or failed",
 "C09": "pure function of (a, b, matrix); an optimality oracle, not a simulation target",
 "C10": "pure function of (a, b, matrix); an optimality oracle, not a simulation target",
 "C11": "totality and the fixed-point law quantify over input bytes only: coverage-guided fuzzing territory, a different technique family",
 "C12": "table lookups on the input, pure",
 "C13": "bit packing of the input, pure",
 "C14": "codon table lookups on the input, pure",
 "C17": "pure function of the k-mer content (the package-level mash.Seed is shared state, but the property does not quantify over changing it)",
 "C19": "traversal order is a pure function of the tree; only stopping a traversal early is an environment action, and that is C18",
 "C20": "pure functions of table text / matrix value",
}

CHECKS = {
 "C06": dict(cat="exploration", ref="DESIGN.md 4.1",
   text="Seeded search over read schedules (delivery plans: 1-byte, uniform, geometric, delimiter-hunting, buffer-boundary, stalls, EOF-with-data) and storage configurations (plain, .gz at several levels, multi-member .gz, unopenable paths), differential against the one-shot in-memory decode; per generated case the small sub-spaces are enumerated completely (all 2^(n-1) partitions of inputs <= 14 bytes, every single cut, every pair of cuts up to 60 bytes). Inputs are sampled, so a clean batch is evidence, not proof.",
   note="Trusted: the one-shot decode through bytes.Reader as the reference (the check is differential and never asserts what the right decode is), Go's compress/gzip writer used to prepare .gz files, the OS file system of the sandbox.",
   tech="deterministic simulation: seeded read-schedule and storage-configuration search with small-scope exhaustive partitions, differential oracle"),
 "C07": dict(cat="fault_enumeration", ref="DESIGN.md 4.2",
   text="For every generated well-formed input the fault position is enumerated completely: every byte offset x {error once then EOF, error forever} x {error alone, error with data} on the read side; every output byte offset x {sticky, transient} x {partial, nothing accepted} on the write side; a directory as the path and a .gz torn at every offset before its trailer on the real file system. Oracle is the statement itself: delivered records are a gap-free prefix of the fault-free decode, at least one error item, termination within B=1000 further steps, no panic. Inputs and the delivery plan before the fault are sampled.",
   note="Trusted: the fault-free one-shot decode as the definition of the leading records (inputs whose reference decode is not clean are skipped and counted); error items compared by non-nil-ness only; bounded liveness B stands for 'finitely many'.",
   tech="deterministic simulation with fault injection: exhaustive fault-offset enumeration per seeded input on simulated reader/writer and torn files"),
 "C15": dict(cat="exploration", ref="DESIGN.md 4.5",
   text="Seeded operation histories (Add, Delete, JSON tear-down/rebuild restarts, caller-buffer scribbling, simulator-chosen map iteration order) checked step by step against a 40-line reference set model with the full observation (Has over the whole bounded universe, ForEach multiset, Delete result) after every step; plus a fixed exhaustive sweep of all short histories over {a,b}.",
   note="Trusted: the reference model as a transcription of the property text; encoding/json. The trie is not concurrent; the 'schedule' here is the history with restart and aliasing points.",
   tech="deterministic simulation: seeded operation histories with restart-from-durable-form and buffer-aliasing faults against a reference model"),
 "C16": dict(cat="exploration", ref="DESIGN.md 4.4",
   text="One shared index, several simulated callers interleaved by a seeded scheduler -- at whole-operation granularity on the real package and at statement granularity on a go/ast-instrumented scratch copy of regions/ (exactly one runnable goroutine at a time, yields before every statement) -- with result-slice scribbling, every At answer compared with a brute-force scan; plus an exhaustive sweep of all small interval sets.",
   note="Trusted: the brute-force scan as the model; the instrumenter inserts only yield calls (go/ast + go/printer) and the instrumented copy is otherwise the working-tree source; schedules are sampled.",
   tech="deterministic simulation: seeded statement-granular scheduler over an instrumented copy, aliasing faults, brute-force reference model"),
 "C18": dict(cat="fault_enumeration", ref="DESIGN.md 4.3",
   text="Cancellation is enumerated completely per generated case: every stop position 0..N-1 of every iterator in three consumer styles (direct call with a counting yield, for-range with break, iter.Pull with stop), in environments with delivery plans and injected faults so that error items exist to stop on. Oracle: no callback after the consumer declined, no panic, items are the exact prefix of the uninterrupted run (ForEach: distinct members), error item last for FASTA/FASTQ/BED/Newick.",
   note="Trusted: the uninterrupted run in the same environment as the reference; Go's range-over-func runtime check as a second observer. Inputs and environments are sampled.",
   tech="deterministic simulation with fault injection: exhaustive cancellation-point enumeration per seeded case, three consumer styles"),
}

def main():
    claimed = sys.argv[1:] or []
    m = {
      "version": 1,
      "setup_cmd": "./check build",
      "hooks": {
        "guard": "verif",
        "enable": "go build -tags verif (the ./check script always builds cmd/dst against /repo's working tree with this tag)",
        "baseline_off_cmd": "cd /repo && GOFLAGS=-mod=mod GOPROXY=off GOSUMDB=off go test -json -vet=off -count=1 -timeout 25m ./...",
        "source_commits": [],
        "add_only": True,
      },
      "engines": [{"name": "dst", "path": "cmd/dst", "serves_properties": claimed,
                   "kind_free_text": "deterministic simulator: seeded PRNG -> explicit plans (delivery, acceptance, consumer, storage, schedule, history) executed against the real packages; 16 shard processes; shrinker; replay"}],
      "checks": [],
      "not_applicable": [],
      "notes": "See DESIGN.md. Exit 0 held / 1 VIOLATION / 2 build or harness trouble. VERIF_SEED selects the seed (default 1).",
    }
    try:
        hooks = open("HOOK_COMMITS.txt").read().split()
        m["hooks"]["source_commits"] = hooks
    except FileNotFoundError:
        pass
    for pid in sorted(CHECKS):
        c = CHECKS[pid]
        if pid in claimed:
            m["checks"].append({
              "property_id": pid,
              "quick_cmd": f"./check {pid} quick",
              "thorough_cmd": f"./check {pid} thorough",
              "evidence_file": f"evidence/{pid}.json",
              "replay_cmd_template": "./check replay {path}",
              "engine": "dst",
              "level_claimed": {"category": c["cat"], "text": c["text"], "design_ref": c["ref"]},
              "level_note": c["note"],
              "technique": c["tech"],
            })
        else:
            m["not_applicable"].append({"property_id": pid, "reason": "claimed in DESIGN.md; check under construction in this commit (not a not-applicable verdict)"})
    for pid in sorted(NA):
        m["not_applicable"].append({"property_id": pid, "reason": NA[pid]})
    json.dump(m, open("MANIFEST.json", "w"), indent=1)
    open("MANIFEST.json", "a").write("\n")

main()
